package main

import (
	"fmt"
	"go/token"
	"go/types"
	"strings"

	"golang.org/x/tools/go/ssa"
)

func init() {
	register("C16", &propDef{run: runC16,
		explain: "The numeric clauses of C16 (quota = ceil(larger/smaller), balance) are arithmetic over runtime channel counts and are NOT decided. Decided structural necessary conditions of 'every source channel is assigned exactly once and an assignment never changes': (R1) every ChannelMapping.AddKeyValue call is gated by the new-key outcome of CheckKeyNotExist / CheckKeyExist in the same function, and in startReadChannel additionally by the absence of the key in channelHandlerMap; (R2) every call of a map-touching ChannelMapping method, and every access to channelHandlerMap / channelForwardMap / sourcePChannelKeyMap, happens with channelLock held (write lock for writers); (R3) the forward quota is reserved atomically: in forwardChannel the comparison with AverageCnt and the increment of channelForwardMap lie in one write-lock span, the increment only on the below-quota branch; (R4) assignments are append-only: the three maps of ChannelMapping are written only by AddKeyValue and the constructor, and no entry of channelHandlerMap, sourcePChannelKeyMap or a ChannelMapping map is ever deleted or reassigned.",
		notDec:  []string{"average() = ceil(larger/smaller) and the per-channel quota bound (integer arithmetic on runtime counts)", "which waiting handler receives which forwarded channel (runtime interleaving)"},
	})
}

func runC16(w *World, r *Report) {
	r.Rule("C16-R1", "check-then-add", "AddKeyValue is dominated by the `true` outcome of CheckKeyNotExist or the `false` outcome of CheckKeyExist in the same function with no release of channelLock in between; in startReadChannel it is also dominated by the not-found outcome of the channelHandlerMap lookup", 2)
	r.Rule("C16-R2", "lockset", "calls of CheckKeyNotExist/CheckKeyExist/AddKeyValue and accesses to channelHandlerMap, channelForwardMap, sourcePChannelKeyMap are made with replicateChannelManager.channelLock held (write lock for writes)", 20)
	r.Rule("C16-R3", "atomic quota reservation", "forwardChannel: `forwardCnt < AverageCnt()` and `channelForwardMap[ch] += 1` in one write-lock span, the increment dominated by the below-quota edge", 1)
	r.Rule("C16-R5", "nothing can fail after the reservation", "in replicateChannelManager.startReadChannel no error return is reachable from AddKeyValue / the channelForwardMap increment: a reserved slot always gets its handler", 1)
	if src := w.Func(pkgReader, "replicateChannelManager", "startReadChannel"); src != nil {
		n := 0
		eachInstr(src, func(in ssa.Instruction) {
			c, ok := in.(*ssa.Call)
			if !ok || callSym(c.Common()).name != "AddKeyValue" {
				return
			}
			n++
			bad := token.NoPos
			reach := blockReach(c.Block(), nil)
			reach[c.Block()] = true
			for b := range reach {
				ret, isR := b.Instrs[len(b.Instrs)-1].(*ssa.Return)
				if !isR || len(ret.Results) == 0 {
					continue
				}
				if b == c.Block() && instrIndex(ret) < instrIndex(c) {
					continue
				}
				last := returnedValue(ret, len(ret.Results)-1)
				if last != nil && isErrorType(src.Signature.Results().At(src.Signature.Results().Len()-1).Type()) && !isNilConst(last) {
					bad = ret.Pos()
				}
			}
			r.Check(bad == token.NoPos, "C16-R5", fmt.Sprintf("(*replicateChannelManager).startReadChannel | AddKeyValue#%d is past the last failure point", n), c.Pos(), "no error return after the reservation", "an error return is reachable after the mapping entry and the quota slot were reserved: a failed start (e.g. the MQ connection check) leaves an assignment without a handler, which blocks the same pair on retry and eats a slot of the downstream channel")
		})
		if n == 0 {
			r.Fail("C16-R5", "(*replicateChannelManager).startReadChannel | AddKeyValue", src.Pos(), "no reservation found")
		}
	} else {
		r.Undecided("C16-R5", "startReadChannel", 0, "anchor not found")
	}
	r.Rule("C16-R6", "the quota check counts values, not keys", "ChannelMapping.CheckKeyNotExist decides by comparing the VALUES of the mapping table with the offered channel of the other side (how many keys already point at it); it never looks the offered channel up as a key", 1)
	if ck := w.Func(pkgUtil, "ChannelMapping", "CheckKeyNotExist"); ck != nil {
		keyLookup := token.NoPos
		usesTarget, usesSource := false, false
		for _, g := range familyOf(ck).Funcs {
			eachInstr(g, func(in ssa.Instruction) {
				if lk, ok := in.(*ssa.Lookup); ok {
					if _, isMap := lk.X.Type().Underlying().(*types.Map); isMap && strings.HasSuffix(w.accessPath(lk.X), "Mapping") {
						keyLookup = lk.Pos()
					}
				}
				if bo, ok := in.(*ssa.BinOp); ok && bo.Op == token.EQL {
					for _, o := range []ssa.Value{bo.X, bo.Y} {
						for _, x := range backSlice(o, SliceOpts{MaxDepth: 3}) {
							if x == ssa.Value(ck.Params[2]) {
								usesTarget = true
							}
							if x == ssa.Value(ck.Params[1]) {
								usesSource = true
							}
						}
					}
				}
				// lo.Contains(values, target) / lo.Count(values, target)
				if c, ok := in.(*ssa.Call); ok && strings.HasSuffix(callSym(c.Common()).pkg, "samber/lo") {
					for _, a := range c.Call.Args {
						if a == ssa.Value(ck.Params[2]) {
							usesTarget = true
						}
						if a == ssa.Value(ck.Params[1]) {
							usesSource = true
						}
					}
				}
			})
		}
		r.Check(keyLookup == token.NoPos && usesTarget && usesSource, "C16-R6", "(*ChannelMapping).CheckKeyNotExist | decides by values", ck.Pos(), "compares the table's values with the offered channel", "the check looks the offered channel up as a KEY of the mapping table (or does not compare the values with it): a new key always looks free, so several channels are assigned to one channel of the other side")
	} else {
		r.Undecided("C16-R6", "CheckKeyNotExist", 0, "anchor not found")
	}
	// R7: sibling agreement of the division operands in average(): every `/` and `%` of two values that a dominating
	// comparison orders has the greater one as its dividend (ceil(larger/smaller) needs quotient AND remainder of the
	// same pair). Silent on divisions whose operands no dominating comparison orders (e.g. a rewrite through
	// larger/smaller locals): the numeric clause itself stays not decided.
	r.Rule("C16-R7", "division operands agree with the ordering test", "util.average: every quotient / remainder of two values ordered by a dominating comparison divides the greater by the smaller (quotient and remainder of one branch use the same pair)", 0)
	if av := w.Func(pkgUtil, "", "average"); av != nil {
		nDiv := 0
		for _, g := range familyOf(av).Funcs {
			eachInstr(g, func(in ssa.Instruction) {
				bo, ok := in.(*ssa.BinOp)
				if !ok || (bo.Op != token.QUO && bo.Op != token.REM) {
					return
				}
				// walk up the dominator tree looking for an edge that orders bo.X and bo.Y
				verdict := 0 // +1: X is the greater (or equal) on every path reaching the operation, -1: Y is
				for b := bo.Block(); b.Idom() != nil && verdict == 0; b = b.Idom() {
					cond, t, f, isIf := ifSuccs(b.Idom())
					if !isIf {
						continue
					}
					cmp, isCmp := cond.(*ssa.BinOp)
					if !isCmp {
						continue
					}
					onTrue := len(t.Preds) == 1 && t.Dominates(bo.Block())
					onFalse := len(f.Preds) == 1 && f.Dominates(bo.Block())
					if onTrue == onFalse {
						continue
					}
					xGreater := 0 // when the comparison is true
					switch {
					case cmp.X == bo.X && cmp.Y == bo.Y:
						xGreater = 1
					case cmp.X == bo.Y && cmp.Y == bo.X:
						xGreater = -1
					default:
						continue
					}
					switch cmp.Op {
					case token.GTR, token.GEQ:
					case token.LSS, token.LEQ:
						xGreater = -xGreater
					default:
						continue
					}
					if onFalse {
						xGreater = -xGreater
					}
					verdict = xGreater
				}
				if verdict == 0 {
					return
				}
				nDiv++
				r.Check(verdict > 0, "C16-R7", fmt.Sprintf("average | %s #%d divides the greater by the smaller", bo.Op, nDiv), bo.Pos(), "dividend is the side the dominating comparison makes the greater", "the dividend of this "+bo.Op.String()+" is the SMALLER of the two counts on this branch (operands crossed against the sibling operation of the branch): the remainder test / quotient no longer computes ceil(larger/smaller), so the per-channel quota is wrong when the counts divide evenly or not at all")
			})
		}
		if nDiv == 0 {
			r.Info("C16-R7", "average | no division of two values ordered by a dominating comparison", av.Pos(), "the rule gives no verdict on this implementation of the quota")
		}
	} else {
		r.Undecided("C16-R7", "average", 0, "anchor not found")
	}
	// R8: a handler that waited for a forwarded channel records the pair it actually serves
	r.Rule("C16-R8", "a rebound handler records its own pair", "replicateChannelManager.waitChannel: the pair given to AddKeyValue is read from the waiting handler's sourcePChannel / targetPChannel fields after the forwarded channel was stored into one of them (not the pair that was originally offered and refused)", 1)
	if wc := w.Func(pkgReader, "replicateChannelManager", "waitChannel"); wc != nil {
		n := 0
		fam := familyOf(wc)
		for _, g := range fam.Funcs {
			eachInstr(g, func(in ssa.Instruction) {
				c, ok := in.(*ssa.Call)
				if !ok || callSym(c.Common()).name != "AddKeyValue" {
					return
				}
				n++
				args := callArgs(c.Common())
				want := []string{"sourcePChannel", "targetPChannel"}
				bad := ""
				for i, a := range args {
					if i > 1 {
						break
					}
					ap := w.accessPath(a)
					if !strings.HasSuffix(ap, "."+want[i]) {
						bad = fmt.Sprintf("argument %d is %s, not the handler's %s", i, ap, want[i])
						break
					}
					// the read follows the rebinding stores
					ld, isLd := a.(*ssa.UnOp)
					if !isLd {
						continue
					}
					for _, in2 := range fam.allInstr {
						st, isSt := in2.(*ssa.Store)
						if !isSt || st.Parent() != g {
							continue
						}
						if fa, isFA := st.Addr.(*ssa.FieldAddr); isFA && (fieldName(fa.X.Type(), fa.Field) == "sourcePChannel" || fieldName(fa.X.Type(), fa.Field) == "targetPChannel") {
							if !instrReaches(st, ld) {
								bad = "the pair is read before the forwarded channel is stored into the handler"
							}
						}
					}
				}
				r.Check(bad == "", "C16-R8", fmt.Sprintf("(*replicateChannelManager).waitChannel | AddKeyValue#%d records the handler's own pair", n), c.Pos(), "(handler.sourcePChannel, handler.targetPChannel) read after the rebinding", bad+": the mapping table charges the channel that was full and does not know the pair really served, so the quota of the forwarded channel is not counted and the refused pair looks assigned")
			})
		}
		if n == 0 {
			r.Fail("C16-R8", "(*replicateChannelManager).waitChannel | AddKeyValue", wc.Pos(), "the waiting path no longer records its assignment")
		}
	} else {
		r.Undecided("C16-R8", "waitChannel", 0, "anchor not found")
	}
	// R9: who may offer a channel to the waiting handlers
	r.Rule("C16-R9", "who may offer a channel to waiting handlers", "the only sends on replicateChannelManager.forwardReplicateChannel are in forwardChannel (after the quota slot was reserved) and in forwardMsg (the channel a forwarded pack needs): a channel whose assignment is still in the mapping table is never offered a second time", 2)
	{
		nSend := 0
		for _, fn := range w.RepoFuncs() {
			if fn.Pkg == nil || fn.Pkg.Pkg.Path() != pkgReader {
				continue
			}
			eachInstr(fn, func(in ssa.Instruction) {
				var ch ssa.Value
				switch x := in.(type) {
				case *ssa.Send:
					ch = x.Chan
				case *ssa.Select:
					for _, st := range x.States {
						if st.Dir == types.SendOnly && strings.HasSuffix(w.accessPath(st.Chan), ".forwardReplicateChannel") {
							ch = st.Chan
						}
					}
				}
				if ch == nil || !strings.HasSuffix(w.accessPath(ch), ".forwardReplicateChannel") {
					return
				}
				nSend++
				root := rootFunc(fn).Name()
				r.Check(root == "forwardChannel" || root == "forwardMsg", "C16-R9", fmt.Sprintf("%s | send on forwardReplicateChannel #%d", shortFn2(fn), nSend), in.Pos(), "one of the two accounted senders", "a channel is offered to the waiting handlers outside forwardChannel / forwardMsg: the offered channel's assignment is still in the mapping table and no quota slot was reserved for it, so a waiting source channel lands on a downstream channel that is already in use (one-to-one / balance broken)")
			})
		}
		if nSend == 0 {
			r.Undecided("C16-R9", "forwardReplicateChannel", 0, "no send found")
		}
	}
	r.Rule("C16-R4", "assignments are append-only", "ChannelMapping's maps are written only in AddKeyValue/NewChannelMapping; no delete() or reassignment of channelHandlerMap / sourcePChannelKeyMap / ChannelMapping maps anywhere", 4)

	mgr := w.Named(pkgReader, "replicateChannelManager")
	cm := w.Named(pkgUtil, "ChannelMapping")
	if mgr == nil || cm == nil {
		r.Undecided("C16-R1", "anchors", 0, "replicateChannelManager / ChannelMapping not found")
		return
	}
	touch := map[string]bool{"CheckKeyNotExist": true, "CheckKeyExist": true, "AddKeyValue": true}
	guardedMaps := map[string]bool{"channelHandlerMap": true, "channelForwardMap": true, "sourcePChannelKeyMap": true}
	// functions documented to be called with the lock held: verify their callers instead
	needLockHelpers := map[string]bool{"updateSourcePChannelMap": true, "getChannelMapKey": true}

	var fns []*ssa.Function
	for _, fn := range w.RepoFuncs() {
		if s := fnSym(rootFunc(fn)); s.pkg == pkgReader && s.recv == "replicateChannelManager" {
			fns = append(fns, fn)
		}
	}
	n2 := map[string]int{}
	for _, fn := range fns {
		host := shortFn2(fn)
		rootName := fnSym(rootFunc(fn)).name
		eachInstr(fn, func(in ssa.Instruction) {
			// --- ChannelMapping method calls
			if c, ok := in.(*ssa.Call); ok {
				s := callSym(c.Common())
				if s.pkg == pkgUtil && s.recv == "ChannelMapping" && touch[s.name] {
					n2[host+s.name]++
					cons := fmt.Sprintf("%s | %s#%d under channelLock", host, s.name, n2[host+s.name])
					held := w.locksHeldAt(c)
					mode := ""
					if s.name == "AddKeyValue" {
						mode = "W"
					}
					r.Check(heldSuffix(held, ".channelLock", mode), "C16-R2", cons, c.Pos(), "lock held", "ChannelMapping."+s.name+" is called without channelLock held (two registrations can both see the key as new)")
					if s.name == "AddKeyValue" {
						c16CheckThenAdd(w, r, fn, c)
					}
				}
				// helpers that require the lock: their call sites must hold it
				if s.recv == "replicateChannelManager" && needLockHelpers[s.name] {
					n2[host+s.name]++
					cons := fmt.Sprintf("%s | call %s#%d under channelLock", host, s.name, n2[host+s.name])
					held := w.locksHeldAt(c)
					mode := ""
					if s.name == "updateSourcePChannelMap" {
						mode = "W"
					}
					r.Check(heldSuffix(held, ".channelLock", mode), "C16-R2", cons, c.Pos(), "lock held at the call", "helper "+s.name+" needs channelLock but the caller does not hold it")
				}
			}
			// --- guarded map accesses
			var mapVal ssa.Value
			write := false
			switch x := in.(type) {
			case *ssa.MapUpdate:
				mapVal, write = x.Map, true
			case *ssa.Lookup:
				mapVal = x.X
			case *ssa.Range:
				mapVal = x.X
			case *ssa.Call:
				if b, ok := x.Call.Value.(*ssa.Builtin); ok && (b.Name() == "delete" || b.Name() == "len") && len(x.Call.Args) > 0 {
					mapVal = x.Call.Args[0]
					write = b.Name() == "delete"
				}
			}
			if mapVal == nil {
				return
			}
			ap := w.accessPath(mapVal)
			field := ap[strings.LastIndex(ap, ".")+1:]
			if !guardedMaps[field] || !strings.Contains(ap, ":r.") {
				return
			}
			if needLockHelpers[rootName] && fn.Parent() == nil {
				return // checked at the call sites
			}
			if rootName == "NewReplicateChannelManager" {
				return
			}
			n2[host+field]++
			cons := fmt.Sprintf("%s | %s access#%d under channelLock", host, field, n2[host+field])
			held := w.locksHeldAt(in)
			mode := ""
			if write {
				mode = "W"
			}
			okHeld := heldSuffix(held, ".channelLock", mode)
			// closures passed to retry.Do with a deferred unlock inside are handled by the facts of the closure itself
			det := field + " is read without channelLock"
			if write {
				det = field + " is written without the write lock"
			}
			r.Check(okHeld, "C16-R2", cons, in.Pos(), "lock held", det)
		})
	}

	// ---------- R3
	fc := w.Func(pkgReader, "replicateChannelManager", "forwardChannel")
	if fc == nil || len(fc.AnonFuncs) == 0 {
		r.Undecided("C16-R3", "forwardChannel", 0, "anchor not found")
	} else {
		g := fc.AnonFuncs[0]
		var cmp *ssa.BinOp
		var inc *ssa.MapUpdate
		eachInstr(g, func(in ssa.Instruction) {
			switch x := in.(type) {
			case *ssa.BinOp:
				if x.Op == token.LSS || x.Op == token.GEQ || x.Op == token.LEQ || x.Op == token.GTR {
					for _, o := range []ssa.Value{x.X, x.Y} {
						if c, ok := o.(*ssa.Call); ok && callSym(c.Common()).name == "AverageCnt" {
							cmp = x
						}
					}
				}
			case *ssa.MapUpdate:
				if strings.HasSuffix(w.accessPath(x.Map), ".channelForwardMap") {
					inc = x
				}
			}
		})
		cons := "(*replicateChannelManager).forwardChannel$lit | reserve quota"
		if cmp == nil || inc == nil {
			r.Fail("C16-R3", cons, g.Pos(), "the quota comparison and the reservation (channelForwardMap increment) are not both present in forwardChannel: check and reservation are no longer one step")
		} else {
			hc, hi := w.locksHeldAt(cmp), w.locksHeldAt(inc)
			sameSpan := heldSuffix(hc, ".channelLock", "W") && heldSuffix(hi, ".channelLock", "W") && noUnlockBetween(w, cmp, inc)
			// increment on the below-quota branch
			onBranch := false
			for _, b := range g.Blocks {
				cond, t, f, ok := ifSuccs(b)
				if !ok || cond != ssa.Value(cmp) {
					continue
				}
				tgt := t
				if cmp.Op == token.GEQ || cmp.Op == token.GTR {
					tgt = f
				}
				if tgt == inc.Block() || tgt.Dominates(inc.Block()) {
					onBranch = true
				}
			}
			// the value compared is the map's current count
			cntOK := false
			for _, o := range []ssa.Value{cmp.X, cmp.Y} {
				if strings.HasSuffix(w.accessPath(o), ".channelForwardMap[]") {
					cntOK = true
				}
			}
			// only the quota decides whether a free channel is forwarded: the comparison is reached on every call
			allDom := true
			eachInstr(g, func(in ssa.Instruction) {
				if ret, isR := in.(*ssa.Return); isR && len(ret.Block().Preds) > 0 && !instrDominates(cmp, ret) {
					allDom = false
				}
			})
			r.Check(allDom, "C16-R3", "(*replicateChannelManager).forwardChannel$lit | only the quota can refuse a free channel", cmp.Pos(), "the quota comparison dominates every return", "a path leaves forwardChannel before the quota comparison (some other condition refuses the free channel): a channel freed before its waiter registered is dropped and that waiter is never assigned one")
			r.Check(sameSpan && onBranch && cntOK, "C16-R3", cons, cmp.Pos(), "compare and increment in one write-lock span, increment on the below-quota branch", fmt.Sprintf("quota check and reservation are not atomic (same write-lock span=%v, increment on the below-quota branch=%v, compares the map's count=%v): two forwards of one free channel can both pass", sameSpan, onBranch, cntOK))
		}
	}

	// ---------- R4
	cmFields := map[*types.Var]bool{}
	if st, ok := cm.Underlying().(*types.Struct); ok {
		for i := 0; i < st.NumFields(); i++ {
			if _, isMap := st.Field(i).Type().Underlying().(*types.Map); isMap {
				cmFields[st.Field(i)] = true
			}
		}
	}
	n4 := 0
	for _, fn := range w.RepoFuncs() {
		host := shortFn2(fn)
		rs := fnSym(rootFunc(fn))
		eachInstr(fn, func(in ssa.Instruction) {
			switch x := in.(type) {
			case *ssa.MapUpdate:
				for f := range fieldsInSlice(backSlice(x.Map, SliceOpts{MaxDepth: 4})) {
					if cmFields[f] {
						n4++
						ok := rs.recv == "ChannelMapping" && rs.name == "AddKeyValue"
						r.Check(ok, "C16-R4", fmt.Sprintf("%s | write ChannelMapping.%s", host, f.Name()), x.Pos(), "inside AddKeyValue", "a ChannelMapping table is written outside AddKeyValue: an existing assignment can be changed without the new-key check")
					}
				}
			case *ssa.Store:
				if fa, ok := x.Addr.(*ssa.FieldAddr); ok {
					fv := fieldVar(fa.X.Type(), fa.Field)
					if cmFields[fv] {
						n4++
						ok := rs.pkg == pkgUtil && rs.name == "NewChannelMapping"
						r.Check(ok, "C16-R4", fmt.Sprintf("%s | replace ChannelMapping.%s", host, fv.Name()), x.Pos(), "constructor", "a ChannelMapping table is replaced after construction: all assignments are forgotten")
					}
					if fv != nil && guardedMaps[fv.Name()] && typeIs(fa.X.Type(), pkgReader, "replicateChannelManager") && fv.Name() != "channelForwardMap" {
						n4++
						ok := rs.name == "NewReplicateChannelManager"
						r.Check(ok, "C16-R4", fmt.Sprintf("%s | replace %s", host, fv.Name()), x.Pos(), "constructor", fv.Name()+" is replaced after construction")
					}
				}
			case *ssa.Call:
				b, ok := x.Call.Value.(*ssa.Builtin)
				if !ok || b.Name() != "delete" {
					return
				}
				ap := w.accessPath(x.Call.Args[0])
				field := ap[strings.LastIndex(ap, ".")+1:]
				isCM := false
				for f := range fieldsInSlice(backSlice(x.Call.Args[0], SliceOpts{MaxDepth: 4})) {
					if cmFields[f] {
						isCM = true
					}
				}
				if isCM || field == "channelHandlerMap" || field == "sourcePChannelKeyMap" || strings.HasSuffix(ap, ".sourcePChannelKeyMap[]") {
					n4++
					r.Fail("C16-R4", fmt.Sprintf("%s | delete from %s", host, field), x.Pos(), "an entry of "+field+" is deleted: the next offer of the same channel is treated as new and AddKeyValue overwrites the existing assignment (a channel is re-assigned)")
				}
			}
		})
	}
	if n4 < 4 {
		r.Fail("C16-R4", "write census", 0, fmt.Sprintf("only %d writes to the assignment tables found (4 confirmed: three in AddKeyValue/constructor and the manager's constructor)", n4))
	}
}

// c16CheckThenAdd: the AddKeyValue call is gated by the new-key outcome of a check in the same function.
func c16CheckThenAdd(w *World, r *Report, fn *ssa.Function, add *ssa.Call) {
	cons := shortFn2(fn) + " | AddKeyValue gated by new-key check"
	ok := false
	det := "no CheckKeyNotExist==true / CheckKeyExist==false outcome dominates this AddKeyValue: an existing assignment can be overwritten"
	eachInstr(fn, func(in ssa.Instruction) {
		c, isC := in.(*ssa.Call)
		if !isC {
			return
		}
		s := callSym(c.Common())
		if s.recv != "ChannelMapping" || (s.name != "CheckKeyNotExist" && s.name != "CheckKeyExist") {
			return
		}
		// find the If(s) controlled by (a value derived from) this call
		for _, b := range fn.Blocks {
			cond, t, f, isIf := ifSuccs(b)
			if !isIf {
				continue
			}
			derived, negated := false, false
			for _, x := range backSlice(cond, SliceOpts{MaxDepth: 6}) {
				if x == ssa.Value(c) {
					derived = true
				}
			}
			if !derived {
				continue
			}
			if u, isU := cond.(*ssa.UnOp); isU && u.Op == token.NOT {
				negated = true
			}
			// which successor means "key is new"?
			newKey := t
			if s.name == "CheckKeyExist" {
				newKey = f
			}
			if negated {
				if newKey == t {
					newKey = f
				} else {
					newKey = t
				}
			}
			if newKey == add.Block() || newKey.Dominates(add.Block()) {
				if noUnlockBetween(w, c, add) {
					ok = true
				} else {
					det = "channelLock is released between the check and AddKeyValue"
				}
			}
		}
	})
	r.Check(ok, "C16-R1", cons, add.Pos(), "gated by the new-key outcome within one lock span", det)
	if fnSym(rootFunc(fn)).name == "startReadChannel" && fn.Parent() == nil {
		// additionally: the handler-map lookup said not found
		ok2 := false
		for _, b := range fn.Blocks {
			cond, t, f, isIf := ifSuccs(b)
			if !isIf {
				continue
			}
			e, isE := cond.(*ssa.Extract)
			if !isE || e.Index != 1 {
				continue
			}
			lk, isL := e.Tuple.(*ssa.Lookup)
			if !isL || !strings.HasSuffix(w.accessPath(lk.X), ".channelHandlerMap") {
				continue
			}
			_ = t
			if f == add.Block() || f.Dominates(add.Block()) {
				// key of the lookup is GetMapKey(source, target)
				if kc, isC := lk.Index.(*ssa.Call); isC && callSym(kc.Common()).name == "GetMapKey" {
					ok2 = true
				}
			}
		}
		r.Check(ok2, "C16-R1", shortFn2(fn)+" | AddKeyValue only for a key without handler", add.Pos(), "dominated by the not-found outcome of channelHandlerMap[GetMapKey(…)]", "AddKeyValue is reachable although a handler already exists for the mapping key")
	}
}

// noUnlockBetween: a and b lie in one span of channelLock: the nearest Lock call dominating b also dominates a,
// and no Unlock can execute after that Lock and before b without the Lock being taken again.
func noUnlockBetween(w *World, a, b ssa.Instruction) bool {
	fn := a.Parent()
	isLockCall := func(in ssa.Instruction, names ...string) bool {
		c, ok := in.(*ssa.Call)
		if !ok {
			return false
		}
		s := callSym(c.Common())
		match := false
		for _, n := range names {
			if s.name == n {
				match = true
			}
		}
		if !match {
			return false
		}
		rc := callRecv(c.Common())
		return rc != nil && strings.HasSuffix(w.accessPath(rc), ".channelLock")
	}
	var lock ssa.Instruction
	eachInstr(fn, func(in ssa.Instruction) {
		if isLockCall(in, "Lock", "RLock") && instrDominates(in, b) {
			if lock == nil || instrDominates(lock, in) {
				lock = in
			}
		}
	})
	if lock == nil || !(instrDominates(lock, a)) {
		return false
	}
	bad := false
	eachInstr(fn, func(in ssa.Instruction) {
		if !isLockCall(in, "Unlock", "RUnlock") {
			return
		}
		if !instrReaches(lock, in) {
			return
		}
		reach := false
		if in.Block() == b.Block() {
			reach = instrIndex(in) < instrIndex(b)
		} else if in.Block() == lock.Block() {
			reach = instrIndex(in) > instrIndex(lock) && blockReach(in.Block(), nil)[b.Block()]
		} else {
			reach = blockReach(in.Block(), map[*ssa.BasicBlock]bool{lock.Block(): true})[b.Block()]
		}
		if reach {
			bad = true
		}
	})
	return !bad
}
