package main

import (
	"fmt"
	"go/token"
	"go/types"
	"strings"

	"golang.org/x/tools/go/ssa"
)

func init() {
	register("C14", &propDef{run: runC14,
		explain: "Structural necessary conditions of 'the write batcher delivers every buffered pack exactly once, in order', decided on server/msgpacker and the DML goroutine in server/cdc_impl.go: (R1) every path of Packer.Receive appends the received message to the buffer exactly once and before any handler call; (R2) the buffer field is written only by that append, the reset and the constructor, and handlers receive the buffer itself (no copy, filter or reorder); (R3) after every handler call the full reset (checkers, global counter decrement by the buffered size, empty buffer, zero size) runs on every exit path; (R4) every path of Receive adds the same size to the global counter and to the per-batcher size exactly once, and those counters are written nowhere else; (R5) the handler's error is the returned value; (R6) the DML goroutine registers the final ClearMsgs flush before it enters its receive loop and hands Receive the same callback; (R7) threshold checkers and the memory protector keep their state behind their own methods.",
		notDec:  []string{"threshold arithmetic (which pack triggers a flush)", "the global counter across concurrently running batchers (only per-call add/remove balance is decided)", "behaviour when the handler panics"},
	})
}

// lastStoreBefore returns the value of the last store to alloc in the block of
// `at` before `at`, falling back to a unique dominating store.
func lastStoreBefore(fam *Family, alloc ssa.Value, at ssa.Instruction) ssa.Value {
	b := at.Block()
	var last ssa.Value
	for _, in := range b.Instrs {
		if in == at {
			break
		}
		if st, ok := in.(*ssa.Store); ok && fam.canon(st.Addr) == alloc {
			last = st.Val
		}
	}
	if last != nil {
		return last
	}
	var cand ssa.Value
	n := 0
	for _, st := range fam.stores[alloc] {
		if st.Parent() == at.Parent() && instrDominates(st, at) {
			cand = st.Val
			n++
		}
	}
	if n == 1 {
		return cand
	}
	return nil
}

// returnedValue resolves result idx of a return through the defer spill.
func returnedValue(ret *ssa.Return, idx int) ssa.Value {
	if idx >= len(ret.Results) {
		return nil
	}
	v := ret.Results[idx]
	if u, ok := v.(*ssa.UnOp); ok && u.Op == token.MUL {
		if al, ok := u.X.(*ssa.Alloc); ok {
			fam := familyOf(ret.Parent())
			if s := lastStoreBefore(fam, al, u); s != nil {
				return s
			}
		}
	}
	return v
}

func postDomInstr(pd map[*ssa.BasicBlock]map[*ssa.BasicBlock]bool, later, earlier ssa.Instruction) bool {
	if later.Parent() != earlier.Parent() {
		return false
	}
	if later.Block() == earlier.Block() {
		return instrIndex(later) > instrIndex(earlier)
	}
	return pd[earlier.Block()][later.Block()]
}

type resetParts struct {
	storeMsgs, zeroSize, remove, resetCall ssa.Instruction
}

func (rp resetParts) missing() []string {
	var m []string
	if rp.storeMsgs == nil {
		m = append(m, "buffer reset (msgs = empty)")
	}
	if rp.zeroSize == nil {
		m = append(m, "currentMsgPackSize = 0")
	}
	if rp.remove == nil {
		m = append(m, "memoryProtector.Remove(currentMsgPackSize) before the size is zeroed")
	}
	if rp.resetCall == nil {
		m = append(m, "checker.Reset() for every checker")
	}
	return m
}

// findReset looks for the four reset components in g, with p's access path base.
func findReset(w *World, g *ssa.Function, base string) resetParts {
	var rp resetParts
	eachInstr(g, func(in ssa.Instruction) {
		switch x := in.(type) {
		case *ssa.Store:
			path := w.accessPath(x.Addr)
			if path == base+".msgs" {
				switch v := x.Val.(type) {
				case *ssa.MakeSlice:
					rp.storeMsgs = x
				case *ssa.Const:
					if v.Value == nil {
						rp.storeMsgs = x
					}
				case *ssa.Slice:
					if isFreshEmptySlice(v) {
						rp.storeMsgs = x
					}
				}
			}
			if path == base+".currentMsgPackSize" {
				if c, ok := x.Val.(*ssa.Const); ok && c.Value != nil && c.Value.ExactString() == "0" {
					rp.zeroSize = x
				}
			}
		case *ssa.Call:
			s := callSym(x.Common())
			if s == (sym{pkgPacker, "MemoryProtector", "Remove"}) {
				a := callArgs(x.Common())
				if len(a) == 1 && w.accessPath(a[0]) == base+".currentMsgPackSize" && w.accessPath(callRecv(x.Common())) == base+".memoryProtector" {
					rp.remove = x
				}
			}
			if s == (sym{pkgPacker, "PackerChecker", "Reset"}) {
				if w.accessPath(callRecv(x.Common())) == base+".checkers[]" {
					rp.resetCall = x
				}
			}
		}
	})
	if rp.remove != nil && rp.zeroSize != nil && !instrDominates(rp.remove, rp.zeroSize) {
		rp.remove = nil
	}
	return rp
}

// inLoopHeadedBy: does block c lie in a natural loop whose header h post-dominates t?
func loopHeaderPostDominating(pd map[*ssa.BasicBlock]map[*ssa.BasicBlock]bool, c, t *ssa.BasicBlock) bool {
	for h := range pd[t] {
		if h.Dominates(c) && h != c && blockReach(c, nil)[h] {
			return true
		}
	}
	return false
}

func runC14(w *World, r *Report) {
	r.Rule("C14-R1", "append exactly once, first", "every path of Packer.Receive stores append(p.msgs, msg) exactly once, and that store dominates every handler call", 2)
	r.Rule("C14-R2", "who-may-write the buffer; handler sees the buffer", "Packer.msgs is written only by the append, the reset and NewPacker; each handler call receives a direct read of p.msgs", 7)
	r.Rule("C14-R3", "reset after every flush", "after each handler call the reset (checkers Reset, memoryProtector.Remove(currentMsgPackSize), msgs = empty, size = 0) runs on every exit path, directly or through the deferred block whose flag is set on that path", 4)
	r.Rule("C14-R4", "size accounting balance", "each path of Receive calls memoryProtector.Add exactly once with the very value added to currentMsgPackSize; currentMsgPackSize and MemoryProtector.current are written nowhere else", 6)
	r.Rule("C14-R8", "the global threshold tests the global counter", "MemoryProtector.Add adds the size to the shared counter and returns the comparison of that counter (not of the single pack) with the limit; Remove subtracts from the same counter", 2)
	c14Protector(w, r)
	r.Rule("C14-R5", "handler error is returned", "every return reachable after a handler call returns that call's error", 4)
	r.Rule("C14-R6", "final flush registered before the loop", "in the DML goroutine of startReplicateDMLMsg a deferred ClearMsgs(cb) dominates the packer.Receive(…, cb) call, with the same packer and callback", 1)
	r.Rule("C14-R7", "checker state encapsulation", "fields of TimerChecker, MsgCountChecker and MemoryProtector are written only by their own methods/constructors; MemoryProtector.current only under its lock", 3)

	recv := w.Func(pkgPacker, "Packer", "Receive")
	clear := w.Func(pkgPacker, "Packer", "ClearMsgs")
	if recv == nil || clear == nil {
		r.Undecided("C14-R1", "Packer.Receive/ClearMsgs", 0, "anchor functions not found")
		return
	}
	fam := familyOf(recv)
	base := "param:" + recv.Params[0].Name()
	msgParam := recv.Params[1]
	handlerParam := recv.Params[2]

	// --- R1
	isAppendStore := func(in ssa.Instruction) bool {
		st, ok := in.(*ssa.Store)
		if !ok || w.accessPath(st.Addr) != base+".msgs" {
			return false
		}
		c, ok := st.Val.(*ssa.Call)
		if !ok {
			return false
		}
		b, ok := c.Call.Value.(*ssa.Builtin)
		if !ok || b.Name() != "append" || len(c.Call.Args) != 2 {
			return false
		}
		if w.accessPath(c.Call.Args[0]) != base+".msgs" {
			return false
		}
		// varargs slice holds exactly msg
		hasMsg := false
		for _, v := range backSlice(c.Call.Args[1], SliceOpts{MaxDepth: 6}) {
			if v == ssa.Value(msgParam) {
				hasMsg = true
			}
		}
		return hasMsg
	}
	var appendStore ssa.Instruction
	eachInstr(recv, func(in ssa.Instruction) {
		if isAppendStore(in) {
			appendStore = in
		}
	})
	handlerCalls := func(fn *ssa.Function, hp *ssa.Parameter) []*ssa.Call {
		var out []*ssa.Call
		eachInstr(fn, func(in ssa.Instruction) {
			if c, ok := in.(*ssa.Call); ok && c.Call.Value == ssa.Value(hp) {
				out = append(out, c)
			}
		})
		return out
	}
	hcs := handlerCalls(recv, handlerParam)
	if appendStore == nil {
		r.Fail("C14-R1", "(*Packer).Receive | append", recv.Pos(), "no store of append(p.msgs, msg) into p.msgs found: a received pack is not buffered")
	} else {
		counts := countOnPaths(recv, isAppendStore)
		bad := ""
		for _, b := range recv.Blocks {
			if len(b.Succs) == 0 && b.Comment != "recover" {
				if c, ok := counts[b]; ok && (c.lo != 1 || c.hi != 1) {
					bad = fmt.Sprintf("exit block %d sees between %d and %d appends", b.Index, c.lo, c.hi)
				}
			}
		}
		r.Check(bad == "", "C14-R1", "(*Packer).Receive | append exactly once per path", appendStore.Pos(), "every exit path passes exactly one append of msg", bad)
		allDom := true
		for _, h := range hcs {
			if !instrDominates(appendStore, h) {
				allDom = false
			}
		}
		r.Check(allDom && len(hcs) > 0, "C14-R1", "(*Packer).Receive | append dominates handler calls", appendStore.Pos(), fmt.Sprintf("append dominates all %d handler calls", len(hcs)), "a handler call is reachable without the received pack having been appended")
	}

	// --- R2 who-may-write Packer.msgs
	msgsField := w.Field(pkgPacker, "Packer", "msgs")
	sizeField := w.Field(pkgPacker, "Packer", "currentMsgPackSize")
	curField := w.Field(pkgPacker, "MemoryProtector", "current")
	if msgsField == nil || sizeField == nil || curField == nil {
		r.Undecided("C14-R2", "Packer fields", 0, "anchor fields not found")
		return
	}
	for _, fn := range w.RepoFuncs() {
		eachInstr(fn, func(in ssa.Instruction) {
			st, ok := in.(*ssa.Store)
			if !ok {
				return
			}
			fa, ok := st.Addr.(*ssa.FieldAddr)
			if !ok {
				return
			}
			fv := fieldVar(fa.X.Type(), fa.Field)
			root := rootFunc(fn)
			rs := fnSym(root)
			switch fv {
			case msgsField:
				c := fmt.Sprintf("%s | write Packer.msgs", fn.String())
				ok := false
				why := ""
				switch {
				case rs == (sym{pkgPacker, "", "NewPacker"}):
					ok, why = true, "constructor"
				case rs == (sym{pkgPacker, "Packer", "Receive"}) || rs == (sym{pkgPacker, "Packer", "ClearMsgs"}):
					if isAppendStore(in) {
						ok, why = true, "the append"
					} else if _, isMk := st.Val.(*ssa.MakeSlice); isMk {
						ok, why = true, "reset to a fresh empty slice"
					} else if sl, isSl := st.Val.(*ssa.Slice); isSl && isFreshEmptySlice(sl) {
						ok, why = true, "reset to a fresh empty slice"
					} else if cst, isC := st.Val.(*ssa.Const); isC && cst.Value == nil {
						ok, why = true, "reset to nil"
					}
				}
				r.Check(ok, "C14-R2", c, st.Pos(), why, "Packer.msgs is written outside the append/reset/constructor: buffered packs can be lost, duplicated or reordered")
			case sizeField:
				c := fmt.Sprintf("%s | write Packer.currentMsgPackSize", fn.String())
				ok := rs == (sym{pkgPacker, "Packer", "Receive"}) || rs == (sym{pkgPacker, "Packer", "ClearMsgs"}) || rs == (sym{pkgPacker, "", "NewPacker"})
				r.Check(ok, "C14-R4", c, st.Pos(), "inside the batcher's own methods", "currentMsgPackSize written outside Receive/ClearMsgs: the global counter can no longer be balanced")
			case curField:
				c := fmt.Sprintf("%s | write MemoryProtector.current", fn.String())
				ok := rs == (sym{pkgPacker, "MemoryProtector", "Add"}) || rs == (sym{pkgPacker, "MemoryProtector", "Remove"})
				if ok {
					// under lock: a Lock call on m.lock dominates
					locked := false
					eachInstr(fn, func(li ssa.Instruction) {
						if c, ok := li.(*ssa.Call); ok && callSym(c.Common()).name == "Lock" && instrDominates(c, st) {
							locked = true
						}
					})
					ok = locked
				}
				r.Check(ok, "C14-R7", c, st.Pos(), "in Add/Remove under the protector's lock", "MemoryProtector.current written outside Add/Remove or without the lock")
			}
		})
	}
	for _, spec := range []struct {
		fn *ssa.Function
		hp *ssa.Parameter
	}{{recv, handlerParam}, {clear, clear.Params[1]}} {
		b := "param:" + spec.fn.Params[0].Name()
		for i, h := range handlerCalls(spec.fn, spec.hp) {
			c := fmt.Sprintf("%s | handler call #%d argument", spec.fn.String(), i+1)
			arg := h.Call.Args[0]
			_, isLoad := arg.(*ssa.UnOp)
			r.Check(isLoad && w.accessPath(arg) == b+".msgs", "C14-R2", c, h.Pos(), "handler receives p.msgs itself", "handler does not receive the buffer itself (copy, sub-slice or other value): order/completeness of delivery is no longer structural")
		}
	}

	// --- R3 reset after every flush
	pdRecv := postDominators(recv)
	// deferred closures in Receive
	type deferred struct {
		d    *ssa.Defer
		fn   *ssa.Function
		flag *ssa.Alloc
		rp   resetParts
		ok   bool
	}
	var defs []deferred
	eachInstr(recv, func(in ssa.Instruction) {
		d, ok := in.(*ssa.Defer)
		if !ok {
			return
		}
		mc, ok := d.Call.Value.(*ssa.MakeClosure)
		if !ok {
			return
		}
		g := mc.Fn.(*ssa.Function)
		rp := findReset(w, g, base)
		de := deferred{d: d, fn: g, rp: rp}
		if len(rp.missing()) == 0 && len(g.Blocks) > 0 {
			// guarded only by a captured flag tested in the entry block
			if cond, t, _, isIf := ifSuccs(g.Blocks[0]); isIf {
				if u, ok := cond.(*ssa.UnOp); ok && u.Op == token.MUL {
					if al, ok := fam.canon(u.X).(*ssa.Alloc); ok {
						pdg := postDominators(g)
						good := true
						for _, comp := range []ssa.Instruction{rp.storeMsgs, rp.zeroSize, rp.remove} {
							if !(comp.Block() == t || pdg[t][comp.Block()]) {
								good = false
							}
						}
						if !(rp.resetCall.Block() == t || pdg[t][rp.resetCall.Block()] || loopHeaderPostDominating(pdg, rp.resetCall.Block(), t)) {
							good = false
						}
						if good {
							de.flag, de.ok = al, true
						}
					}
				}
			} else {
				// unconditional deferred reset would drop unflushed packs: not accepted
			}
		}
		defs = append(defs, de)
	})
	for i, h := range hcs {
		c := fmt.Sprintf("(*Packer).Receive | reset after handler call #%d", i+1)
		okPath := false
		detail := "no reset protocol found"
		// direct reset
		rp := findReset(w, recv, base)
		if len(rp.missing()) == 0 {
			all := true
			for _, comp := range []ssa.Instruction{rp.storeMsgs, rp.zeroSize, rp.remove} {
				if !postDomInstr(pdRecv, comp, h) {
					all = false
				}
			}
			if all {
				okPath, detail = true, "direct reset post-dominates the handler call"
			}
		}
		for _, de := range defs {
			if !de.ok || !instrDominates(de.d, h) {
				if len(de.rp.missing()) > 0 {
					detail = "deferred block lacks: " + strings.Join(de.rp.missing(), "; ")
				}
				continue
			}
			// flag := true post-dominates h, and no flag := false after it
			set := false
			for _, st := range fam.stores[de.flag] {
				cst, isC := st.Val.(*ssa.Const)
				if !isC || cst.Value == nil || st.Parent() != recv {
					continue
				}
				if cst.Value.ExactString() == "true" && postDomInstr(pdRecv, st, h) {
					set = true
				}
			}
			for _, st := range fam.stores[de.flag] {
				cst, isC := st.Val.(*ssa.Const)
				if isC && cst.Value != nil && cst.Value.ExactString() == "false" && st.Parent() == recv && instrReaches(h, st) {
					set = false
				}
			}
			if set {
				okPath, detail = true, "deferred reset registered before the call and its flag is set on every path after the call"
			} else {
				detail = "the flag guarding the deferred reset is not set on every path after this handler call: flushed packs stay buffered and are delivered again"
			}
		}
		r.Check(okPath, "C14-R3", c, h.Pos(), detail, detail)
	}
	{
		pdc := postDominators(clear)
		bc := "param:" + clear.Params[0].Name()
		rp := findReset(w, clear, bc)
		hc := handlerCalls(clear, clear.Params[1])
		c := "(*Packer).ClearMsgs | reset after handler call"
		if len(hc) != 1 {
			r.Fail("C14-R3", c, clear.Pos(), fmt.Sprintf("ClearMsgs calls the handler %d times (want exactly 1)", len(hc)))
		} else if m := rp.missing(); len(m) > 0 {
			r.Fail("C14-R3", c, hc[0].Pos(), "reset lacks: "+strings.Join(m, "; "))
		} else {
			all := true
			for _, comp := range []ssa.Instruction{rp.storeMsgs, rp.zeroSize, rp.remove} {
				if !postDomInstr(pdc, comp, hc[0]) {
					all = false
				}
			}
			// handler called on every path, exactly once
			cn := countOnPaths(clear, func(in ssa.Instruction) bool { return in == ssa.Instruction(hc[0]) })
			for _, b := range clear.Blocks {
				if len(b.Succs) == 0 && b.Comment != "recover" {
					if x := cn[b]; x.lo != 1 || x.hi != 1 {
						all = false
					}
				}
			}
			r.Check(all, "C14-R3", c, hc[0].Pos(), "handler runs once on every path and the reset post-dominates it", "the reset does not follow the handler call on every path of ClearMsgs")
		}
	}

	// --- R4 Add exactly once with the value added to currentMsgPackSize
	addSym := sym{pkgPacker, "MemoryProtector", "Add"}
	var addCalls []*ssa.Call
	eachInstr(recv, func(in ssa.Instruction) {
		if c, ok := in.(*ssa.Call); ok && callSym(c.Common()) == addSym {
			addCalls = append(addCalls, c)
		}
	})
	if len(addCalls) != 1 {
		r.Fail("C14-R4", "(*Packer).Receive | memoryProtector.Add", recv.Pos(), fmt.Sprintf("%d Add call sites (want 1)", len(addCalls)))
	} else {
		ac := addCalls[0]
		cn := countOnPaths(recv, func(in ssa.Instruction) bool { return in == ssa.Instruction(ac) })
		bad := ""
		for _, b := range recv.Blocks {
			if len(b.Succs) == 0 && b.Comment != "recover" {
				if x := cn[b]; x.lo != 1 || x.hi != 1 {
					bad = fmt.Sprintf("exit block %d passes Add between %d and %d times", b.Index, x.lo, x.hi)
				}
			}
		}
		r.Check(bad == "", "C14-R4", "(*Packer).Receive | Add exactly once per path", ac.Pos(), "every exit path passes exactly one Add", bad)
		sz := callArgs(ac.Common())[0]
		// store currentMsgPackSize = load + sz
		okSum := false
		eachInstr(recv, func(in ssa.Instruction) {
			st, ok := in.(*ssa.Store)
			if !ok || w.accessPath(st.Addr) != base+".currentMsgPackSize" {
				return
			}
			bo, ok := st.Val.(*ssa.BinOp)
			if !ok || bo.Op != token.ADD {
				return
			}
			if (bo.X == sz && w.accessPath(bo.Y) == base+".currentMsgPackSize") || (bo.Y == sz && w.accessPath(bo.X) == base+".currentMsgPackSize") {
				okSum = true
			}
		})
		r.Check(okSum, "C14-R4", "(*Packer).Receive | same size to Add and currentMsgPackSize", ac.Pos(), "currentMsgPackSize += v and Add(v) use the same SSA value", "the value given to memoryProtector.Add differs from the value added to currentMsgPackSize: Remove(currentMsgPackSize) will not balance the global counter")
		// the size is the sum of Size() of the messages of the received pack
		// (a hand-written loop, or a helper such as lo.SumBy(msg.MsgPack.Msgs, func(m) int { return m.Size() }))
		okSize := false
		fromPack, sized := false, false
		allArgs := func(c *ssa.CallCommon) []ssa.Value { return callArgs(c) }
		for _, v := range backSlice(sz, SliceOpts{ThroughArg: allArgs}) {
			if strings.HasPrefix(w.accessPath(v), "param:"+msgParam.Name()+".MsgPack.Msgs") {
				fromPack = true
			}
			if c, ok := v.(*ssa.Call); ok && c.Call.IsInvoke() && c.Call.Method.Name() == "Size" {
				if strings.HasPrefix(w.accessPath(c.Call.Value), "param:"+msgParam.Name()+".MsgPack.Msgs") {
					okSize = true
				}
			}
			// a function literal handed to a summing helper: it must return Size() of its own parameter
			var lit *ssa.Function
			if mc, ok := v.(*ssa.MakeClosure); ok {
				lit, _ = mc.Fn.(*ssa.Function)
			} else if f, ok := v.(*ssa.Function); ok && f.Parent() != nil {
				lit = f
			}
			if lit != nil && len(lit.Params) >= 1 {
				eachInstr(lit, func(in ssa.Instruction) {
					if ret, ok := in.(*ssa.Return); ok && len(ret.Results) == 1 {
						if c, ok := ret.Results[0].(*ssa.Call); ok && c.Call.IsInvoke() && c.Call.Method.Name() == "Size" && c.Call.Value == ssa.Value(lit.Params[0]) {
							sized = true
						}
					}
				})
			}
		}
		if fromPack && sized {
			okSize = true
		}
		r.Check(okSize, "C14-R4", "(*Packer).Receive | size measures the received pack", ac.Pos(), "size = Σ msg.Size() over msg.MsgPack.Msgs", "the size added is not computed from the received pack's messages")
	}

	// Add / Remove bodies: the counter moves by the argument on every path
	for _, spec := range []struct {
		name string
		op   token.Token
	}{{"Add", token.ADD}, {"Remove", token.SUB}} {
		fn := w.Func(pkgPacker, "MemoryProtector", spec.name)
		cons := "(*MemoryProtector)." + spec.name + " | counter moves by the argument on every path"
		if fn == nil {
			r.Undecided("C14-R4", cons, 0, "anchor not found")
			continue
		}
		b := "param:" + fn.Params[0].Name()
		match := func(in ssa.Instruction) bool {
			st, ok := in.(*ssa.Store)
			if !ok || w.accessPath(st.Addr) != b+".current" {
				return false
			}
			bo, ok := st.Val.(*ssa.BinOp)
			if !ok || bo.Op != spec.op {
				return false
			}
			return w.accessPath(bo.X) == b+".current" && bo.Y == ssa.Value(fn.Params[1])
		}
		cn := countOnPaths(fn, match)
		bad := ""
		for _, blk := range fn.Blocks {
			if len(blk.Succs) == 0 && blk.Comment != "recover" {
				if x, ok := cn[blk]; ok && (x.lo != 1 || x.hi != 1) {
					bad = fmt.Sprintf("an exit path changes the counter between %d and %d times", x.lo, x.hi)
				}
			}
		}
		r.Check(bad == "", "C14-R4", cons, fn.Pos(), "current "+spec.op.String()+"= size exactly once on every path", bad+": Add and Remove no longer balance, the shared counter drifts")
	}

	// --- R5 handler error returned
	for _, spec := range []struct {
		fn *ssa.Function
		hp *ssa.Parameter
	}{{recv, handlerParam}, {clear, clear.Params[1]}} {
		for i, h := range handlerCalls(spec.fn, spec.hp) {
			c := fmt.Sprintf("%s | error of handler call #%d", spec.fn.String(), i+1)
			ok, n := true, 0
			eachInstr(spec.fn, func(in ssa.Instruction) {
				ret, isRet := in.(*ssa.Return)
				if !isRet || ret.Block().Comment == "recover" || !instrReaches(h, ret) {
					return
				}
				n++
				if returnedValue(ret, 0) != ssa.Value(h) {
					ok = false
				}
			})
			r.Check(ok && n > 0, "C14-R5", c, h.Pos(), fmt.Sprintf("%d return(s) after the call return its error", n), "a return after the handler call does not return the handler's error: a failed flush is reported as success")
		}
	}

	// --- R6 final flush in the DML goroutine
	dml := w.Func(pkgServer, "MetaCDC", "startReplicateDMLMsg")
	if dml == nil {
		r.Undecided("C14-R6", "(*MetaCDC).startReplicateDMLMsg", 0, "anchor function not found")
	} else {
		recvSym := sym{pkgPacker, "Packer", "Receive"}
		clearSym := sym{pkgPacker, "Packer", "ClearMsgs"}
		var rc ssa.CallInstruction
		var host *ssa.Function
		eachInstrDeep(dml, func(fn *ssa.Function, in ssa.Instruction) {
			if _, ok := isCall(in, recvSym); ok {
				rc, host = in.(ssa.CallInstruction), fn
			}
		})
		if rc == nil {
			r.Undecided("C14-R6", "(*MetaCDC).startReplicateDMLMsg | Receive", dml.Pos(), "no packer.Receive call found")
		} else {
			ok := false
			detail := "no deferred ClearMsgs dominating the Receive call in the same goroutine"
			eachInstr(host, func(in ssa.Instruction) {
				d, isD := in.(*ssa.Defer)
				if !isD || !instrDominates(d, rc) {
					return
				}
				var cl ssa.CallInstruction
				if _, isC := isCall(d, clearSym); isC {
					cl = d
				} else if mc, isMC := d.Call.Value.(*ssa.MakeClosure); isMC {
					for _, x := range callsIn(mc.Fn.(*ssa.Function), false, clearSym) {
						// must run unconditionally: in the entry block
						if x.Block().Index == 0 {
							cl = x
						}
					}
				}
				if cl == nil {
					return
				}
				dfam := familyOf(host)
				samePacker := baseObject(dfam, callRecv(cl.Common())) == baseObject(dfam, callRecv(rc.Common()))
				sameCB := baseObject(dfam, callArgs(cl.Common())[0]) == baseObject(dfam, callArgs(rc.Common())[1])
				if samePacker && sameCB {
					ok = true
				} else {
					detail = fmt.Sprintf("deferred ClearMsgs uses a different packer (%v) or callback (%v) than Receive", !samePacker, !sameCB)
				}
			})
			r.Check(ok, "C14-R6", "(*MetaCDC).startReplicateDMLMsg | deferred ClearMsgs", rc.Pos(), "deferred ClearMsgs with the same packer and callback dominates Receive", detail)
		}
	}

	// --- R7 checker encapsulation
	for _, tn := range []string{"TimerChecker", "MsgCountChecker"} {
		named := w.Named(pkgPacker, tn)
		if named == nil {
			r.Undecided("C14-R7", tn, 0, "type not found")
			continue
		}
		bad := ""
		for _, fn := range w.RepoFuncs() {
			eachInstr(fn, func(in ssa.Instruction) {
				st, ok := in.(*ssa.Store)
				if !ok {
					return
				}
				fa, ok := st.Addr.(*ssa.FieldAddr)
				if !ok || !typeIs(fa.X.Type(), pkgPacker, tn) {
					return
				}
				rs := fnSym(rootFunc(fn))
				if rs.recv != tn && rs.name != "New"+tn {
					bad = fmt.Sprintf("%s writes %s.%s", fn.String(), tn, fieldName(fa.X.Type(), fa.Field))
				}
			})
		}
		r.Check(bad == "", "C14-R7", tn+" | field writes", named.Obj().Pos(), "only own methods and constructor write the checker's fields", bad)
	}
}

// isFreshEmptySlice: make([]T, 0) (rendered by go/ssa as a slice of a new zero-length array).
func isFreshEmptySlice(sl *ssa.Slice) bool {
	al, ok := sl.X.(*ssa.Alloc)
	if !ok {
		return false
	}
	pt, ok := al.Type().(*types.Pointer)
	if !ok {
		return false
	}
	at, ok := pt.Elem().Underlying().(*types.Array)
	return ok && at.Len() == 0
}

func fnSym(fn *ssa.Function) sym {
	o := fnObj(fn)
	if o == nil {
		return sym{}
	}
	p, rcv, n := funcID(o)
	return sym{p, rcv, n}
}

var _ = types.Identical

// c14Protector: C14-R8.
func c14Protector(w *World, r *Report) {
	add := w.Func(pkgPacker, "MemoryProtector", "Add")
	rem := w.Func(pkgPacker, "MemoryProtector", "Remove")
	if add == nil || rem == nil {
		r.Undecided("C14-R8", "MemoryProtector", 0, "anchor not found")
		return
	}
	okCmp, okAdd := false, false
	eachInstr(add, func(in ssa.Instruction) {
		if st, ok := in.(*ssa.Store); ok && strings.HasSuffix(w.accessPath(st.Addr), ".current") {
			if bo, isB := st.Val.(*ssa.BinOp); isB && bo.Op == token.ADD && (bo.X == ssa.Value(add.Params[1]) || bo.Y == ssa.Value(add.Params[1])) {
				okAdd = true
			}
		}
		if ret, ok := in.(*ssa.Return); ok && len(ret.Results) == 1 {
			if bo, isB := returnedValue(ret, 0).(*ssa.BinOp); isB && (bo.Op == token.GTR || bo.Op == token.GEQ || bo.Op == token.LSS || bo.Op == token.LEQ) {
				x, y := w.accessPath(bo.X), w.accessPath(bo.Y)
				cur := strings.HasSuffix(x, ".current") || strings.HasSuffix(y, ".current") || derivesFromField(bo.X, "current") || derivesFromField(bo.Y, "current")
				max := strings.HasSuffix(x, ".max") || strings.HasSuffix(y, ".max")
				if cur && max {
					okCmp = true
				}
			}
		}
	})
	r.Check(okAdd && okCmp, "C14-R8", "(*MemoryProtector).Add | counter += size; return counter > max", add.Pos(), "the shared counter is compared with the limit", "Add does not compare the shared buffered-bytes counter with the limit (it compares something else, e.g. the single pack's size): several batchers together can exceed the memory budget without any of them flushing")
	okSub := false
	eachInstr(rem, func(in ssa.Instruction) {
		if st, ok := in.(*ssa.Store); ok && strings.HasSuffix(w.accessPath(st.Addr), ".current") {
			if bo, isB := st.Val.(*ssa.BinOp); isB && bo.Op == token.SUB && bo.Y == ssa.Value(rem.Params[1]) {
				okSub = true
			}
		}
	})
	r.Check(okSub, "C14-R8", "(*MemoryProtector).Remove | counter -= size", rem.Pos(), "subtracts from the shared counter", "Remove does not subtract the given size from the shared counter: the counter no longer returns to zero when all batchers are empty")
}

func derivesFromField(v ssa.Value, field string) bool {
	for _, x := range backSlice(v, SliceOpts{MaxDepth: 4}) {
		if fa, ok := x.(*ssa.FieldAddr); ok && fieldName(fa.X.Type(), fa.Field) == field {
			return true
		}
	}
	return false
}
