package main

// Reference signatures of the anchored functions (differential rules B1–B4).
//
// For every function a property is anchored in, `baseline_sigs.json` (embedded; written by `vcheck -write-baseline` from
// the tree the rules were confirmed on) records, by symbol and position-free canonical expressions:
//
//   conds  every two-way branch: its condition in positive canonical form and the sets of callees that run only on
//          the true side / only on the false side;
//   calls  the callees outside the function's own package, interface methods, channel sends and `go` statements the
//          function family performs;
//   args   for calls of repository functions with two same-typed parameters: the canonical argument expressions.
//
// A later tree is compared with it, function by function, only where the same canonical expression is found again
// (anything that no longer matches — renamed locals, restructured code — yields no verdict from these rules):
//
//   B1  the same condition now selects the opposite sides (the two callee sets are exactly swapped): the test was
//       negated or its bodies were swapped. `if !c {A} else {B}` ↔ `if c {B} else {A}` is the same signature.
//   B2  the same two operands are compared with a different relation while the sides are unchanged (`<` became `<=`).
//   B3  a cross-package / interface / channel effect of the reference is no longer performed anywhere in the function
//       family although its callee still exists.
//   B4  the same two argument expressions of a call are passed in exchanged positions.

import (
	_ "embed"
	"encoding/json"
	"fmt"
	"go/token"
	"go/types"
	"os"
	"regexp"
	"sort"
	"strings"

	"golang.org/x/tools/go/ssa"
)

//go:embed baseline_sigs.json
var baselineSigsJSON []byte

type condSig struct {
	TF bool     `json:"tf,omitempty"` // the true side can run into the false side's code
	FT bool     `json:"ft,omitempty"`
	TX bool     `json:"tx,omitempty"` // the true side's first block leaves the function
	FX bool     `json:"fx,omitempty"`
	C  string   `json:"c"`
	P  string   `json:"p,omitempty"` // operand pair "x ~ y" for comparisons
	T  []string `json:"t"`
	F  []string `json:"f"`
	at token.Pos
}

type argSig struct {
	Callee string   `json:"callee"`
	Params []string `json:"params"`
	Args   []string `json:"args"`
	at     token.Pos
}

type opSig struct {
	K    string   `json:"k"` // call | store | mapupdate
	T    string   `json:"t"` // callee, or owner.field
	Args []string `json:"a"`
	at   token.Pos
}

type lockSig struct {
	A     string   `json:"a"` // the access: r/w + canonical field path
	Locks []string `json:"l"`
	at    token.Pos
}

// orderSig: an effect of the function body and its position relative to the steps that can fail (calls whose error is
// tested and whose failure branch leaves the function): B = steps that must have succeeded for the effect to happen,
// A = steps that run only after the effect.
type orderSig struct {
	E  string   `json:"e"`
	B  []string `json:"b,omitempty"`
	A  []string `json:"a,omitempty"`
	at token.Pos
}

type funcSig struct {
	Order []orderSig `json:"order,omitempty"`
	Locks []lockSig `json:"locks"`
	Conds []condSig `json:"conds"`
	Calls []string  `json:"calls"`
	Args  []argSig  `json:"args"`
	Ops   []opSig   `json:"ops"`
}

func (w *World) sigString(v ssa.Value, d int) string {
	if v == nil || d > 6 {
		return "…"
	}
	if p := parentOf(v); p != nil {
		v = familyOf(p).canon(v)
	}
	switch x := v.(type) {
	case *ssa.Const:
		if x.Value == nil {
			return "nil"
		}
		return x.Value.String()
	case *ssa.Parameter:
		return "$" + x.Name()
	case *ssa.FreeVar:
		return "$" + x.Name()
	case *ssa.Global:
		return "global:" + x.Name()
	case *ssa.Alloc:
		// a parameter / variable captured by a literal is an Alloc named after it: the same value as the parameter
		if x.Comment != "" && !strings.HasPrefix(x.Comment, "complit") && x.Comment != "new" {
			return "$" + x.Comment
		}
		return "alloc:" + types.TypeString(x.Type(), func(p *types.Package) string { return p.Name() })
	case *ssa.FieldAddr:
		return w.sigString(x.X, d+1) + "." + fieldName(x.X.Type(), x.Field)
	case *ssa.Field:
		return w.sigString(x.X, d+1) + "." + fieldName(x.X.Type(), x.Field)
	case *ssa.IndexAddr:
		return w.sigString(x.X, d+1) + "[" + w.sigString(x.Index, d+1) + "]"
	case *ssa.Index:
		return w.sigString(x.X, d+1) + "[" + w.sigString(x.Index, d+1) + "]"
	case *ssa.Lookup:
		return w.sigString(x.X, d+1) + "[" + w.sigString(x.Index, d+1) + "]"
	case *ssa.UnOp:
		switch x.Op {
		case token.MUL:
			if al, ok := x.X.(*ssa.Alloc); ok {
				fam := familyOf(x.Parent())
				if sts := fam.stores[al]; len(sts) == 1 {
					return w.sigString(sts[0].Val, d+1)
				}
			}
			return w.sigString(x.X, d+1)
		case token.NOT:
			return "!" + w.sigString(x.X, d+1)
		case token.ARROW:
			return "<-" + w.sigString(x.X, d+1)
		}
		return x.Op.String() + w.sigString(x.X, d+1)
	case *ssa.BinOp:
		return "(" + w.sigString(x.X, d+1) + " " + x.Op.String() + " " + w.sigString(x.Y, d+1) + ")"
	case *ssa.ChangeType:
		return w.sigString(x.X, d+1)
	case *ssa.Convert:
		return w.sigString(x.X, d+1)
	case *ssa.MakeInterface:
		return w.sigString(x.X, d+1)
	case *ssa.ChangeInterface:
		return w.sigString(x.X, d+1)
	case *ssa.TypeAssert:
		return w.sigString(x.X, d+1) + ".(" + types.TypeString(x.AssertedType, func(p *types.Package) string { return p.Name() }) + ")"
	case *ssa.Extract:
		if nx, ok := x.Tuple.(*ssa.Next); ok {
			if rg, ok := nx.Iter.(*ssa.Range); ok {
				return fmt.Sprintf("range(%s)#%d", w.sigString(rg.X, d+1), x.Index)
			}
		}
		return fmt.Sprintf("%s#%d", w.sigString(x.Tuple, d+1), x.Index)
	case *ssa.Call:
		name := calleeName(w, x.Common())
		if strings.HasPrefix(name[strings.LastIndex(name, ".")+1:], "Get") && len(callArgs(x.Common())) == 0 && callRecv(x.Common()) != nil {
			return w.sigString(callRecv(x.Common()), d+1) + "." + strings.TrimPrefix(name[strings.LastIndex(name, ".")+1:], "Get")
		}
		var as []string
		if rv := callRecv(x.Common()); rv != nil {
			as = append(as, w.sigString(rv, d+2))
		}
		for _, a := range callArgs(x.Common()) {
			as = append(as, w.sigString(a, d+2))
		}
		return name + "(" + strings.Join(as, ",") + ")"
	case *ssa.Phi:
		// a source variable assigned on several paths: its name is the stable handle (the set of incoming values
		// changes with every edit of the control flow around it)
		if x.Comment != "" {
			return "$" + x.Comment
		}
		var es []string
		for _, e := range x.Edges {
			es = append(es, w.sigString(e, d+2))
		}
		sort.Strings(es)
		return "phi(" + strings.Join(es, "|") + ")"
	case *ssa.MakeClosure:
		return "closure"
	case *ssa.Function:
		return "func:" + x.Name()
	case *ssa.Slice:
		return w.sigString(x.X, d+1) + "[:]"
	case *ssa.MakeMap, *ssa.MakeSlice, *ssa.MakeChan:
		return fmt.Sprintf("%T", v)[5:]
	}
	return fmt.Sprintf("%T", v)
}

func calleeName(w *World, c *ssa.CallCommon) string {
	if s := callSym(c); s.name != "" {
		return s.String()
	}
	if b, ok := c.Value.(*ssa.Builtin); ok {
		return "builtin." + b.Name()
	}
	// call of a function value held in a field / variable
	ap := w.sigString(c.Value, 3)
	return "dyn:" + ap
}

// positiveCond brings a branch condition into positive canonical form: returns the canonical text, the operand-pair key
// for comparisons, and whether the true/false successors have to be exchanged.
func (w *World) positiveCond(cond ssa.Value) (c, pair string, swap bool) {
	for {
		u, ok := cond.(*ssa.UnOp)
		if !ok || u.Op != token.NOT {
			break
		}
		cond, swap = u.X, !swap
	}
	bo, ok := cond.(*ssa.BinOp)
	if !ok {
		return w.sigString(cond, 0), "", swap
	}
	var rel string
	switch bo.Op {
	case token.EQL, token.NEQ, token.LSS, token.LEQ, token.GTR, token.GEQ:
		rel = bo.Op.String()
	default:
		return w.sigString(cond, 0), "", swap
	}
	x, y := w.sigString(bo.X, 1), w.sigString(bo.Y, 1)
	if x > y {
		x, y = y, x
		rel = map[string]string{"<": ">", "<=": ">=", ">": "<", ">=": "<=", "==": "==", "!=": "!="}[rel]
	}
	// len(..) / unsigned compared with 0: `> 0` is `!= 0`
	if (x == "0" || y == "0") && (strings.HasPrefix(x, "builtin.len(") || strings.HasPrefix(y, "builtin.len(")) {
		if (y == "0" && rel == ">") || (x == "0" && rel == "<") {
			rel = "!="
		}
		if (y == "0" && rel == "<=") || (x == "0" && rel == ">=") {
			rel = "=="
		}
	}
	// positive forms: ==, <, <=
	switch rel {
	case "!=":
		rel, swap = "==", !swap
	case ">":
		rel, swap = "<=", !swap
	case ">=":
		rel, swap = "<", !swap
	}
	return x + " " + rel + " " + y, x + " ~ " + y, swap
}

func (w *World) effectsIn(fn *ssa.Function, region func(*ssa.BasicBlock) bool, ownPkg string, all bool) []string {
	set := map[string]bool{}
	for _, b := range fn.Blocks {
		if !region(b) {
			continue
		}
		for _, in := range b.Instrs {
			switch x := in.(type) {
			case ssa.CallInstruction:
				c := x.Common()
				if b, isB := c.Value.(*ssa.Builtin); isB {
					// removing an entry / closing a channel cannot be inlined away either
					if (b.Name() == "delete" || b.Name() == "close") && len(c.Args) > 0 {
						set["builtin."+b.Name()+" "+types.TypeString(c.Args[0].Type(), func(p *types.Package) string { return p.Name() })] = true
					}
					continue
				}
				name := calleeName(w, c)
				if strings.HasPrefix(name, "dyn:") && !all {
					continue
				}
				s := callSym(c)
				_, isGo := in.(*ssa.Go)
				if !all && !isGo {
					// only effects that cannot be inlined away: other packages, interface methods, goroutine starts
					if !c.IsInvoke() && s.pkg == ownPkg {
						continue
					}
					if isLogLike(s) {
						continue
					}
				}
				pre := ""
				switch in.(type) {
				case *ssa.Go:
					pre = "go "
				case *ssa.Defer:
					// deferred or called before every return: the same effect
				}
				set[pre+name] = true
			case *ssa.Send:
				set["send "+w.sigString(x.Chan, 2)] = true
			}
		}
	}
	return sortedKeys(set)
}

func isLogLike(s sym) bool {
	return strings.HasSuffix(s.pkg, "/log") || strings.Contains(s.pkg, "zap") || strings.Contains(s.pkg, "prometheus") || strings.HasSuffix(s.pkg, "/metrics") || s.pkg == "fmt" || s.pkg == "time" || s.pkg == "strings" || s.pkg == "strconv" || strings.HasSuffix(s.pkg, "samber/lo") || strings.HasSuffix(s.pkg, "cockroachdb/errors") || s.pkg == "errors" || s.pkg == "sort" || s.pkg == "context" || s.pkg == "regexp" || s.pkg == "math" || s.pkg == "bytes" || s.pkg == "unicode" || s.pkg == "unicode/utf8" || s.pkg == "path" || s.pkg == "slices" || s.pkg == "maps"
}

// computeSig builds the signature of one declared function (with its literals).
func (w *World) computeSig(root *ssa.Function) funcSig {
	var sig funcSig
	own := ""
	if root.Pkg != nil {
		own = root.Pkg.Pkg.Path()
	}
	calls := map[string]bool{}
	for _, fn := range familyOf(root).Funcs {
		for _, e := range w.effectsIn(fn, func(*ssa.BasicBlock) bool { return true }, own, false) {
			calls[e] = true
		}
		for _, b := range fn.Blocks {
			cond, t, f, ok := ifSuccs(b)
			if !ok {
				continue
			}
			c, pair, swap := w.positiveCond(cond)
			if swap {
				t, f = f, t
			}
			// what runs only on one side: the blocks that side can reach and the other side cannot (for `a || b` the
			// then-block has two predecessors, so dominance alone would see nothing)
			side := func(s, o *ssa.BasicBlock) []string {
				// within one pass of the enclosing loops: through the back edge each side reaches the other's code
				rs, ro := passReach(s), passReach(o)
				rs[s], ro[o] = true, true
				return w.effectsIn(fn, func(x *ssa.BasicBlock) bool { return rs[x] && !ro[x] }, own, true)
			}
			ts, fs := side(t, f), side(f, t)
			// drop what both sides do
			both := map[string]bool{}
			for _, x := range ts {
				for _, y := range fs {
					if x == y {
						both[x] = true
					}
				}
			}
			filt := func(xs []string) []string {
				out := []string{}
				for _, x := range xs {
					if !both[x] {
						out = append(out, x)
					}
				}
				return out
			}
			ts, fs = filt(ts), filt(fs)
			// exits distinguish sides that call nothing: a side "leaves" when nothing it can reach is reachable from the
			// other side as well (it returns or panics on every path instead of rejoining)
			exit := func(s, o *ssa.BasicBlock) string {
				ro := blockReach(o, nil)
				ro[o] = true
				rs := blockReach(s, nil)
				rs[s] = true
				for b := range rs {
					if ro[b] {
						return ""
					}
				}
				for b := range rs {
					if len(b.Succs) == 0 {
						if _, isP := b.Instrs[len(b.Instrs)-1].(*ssa.Panic); isP {
							continue
						}
						return "·return"
					}
				}
				return "·panic"
			}
			if e := exit(t, f); e != "" {
				ts = append(ts, e)
			}
			if e := exit(f, t); e != "" {
				fs = append(fs, e)
			}
			pos := b.Instrs[len(b.Instrs)-1].Pos()
			if !pos.IsValid() {
				if v, isV := cond.(ssa.Instruction); isV {
					pos = v.Pos()
				}
			}
			// "runs into the other side's code" within this pass of the enclosing loop: do not follow back edges
			backTargets := map[*ssa.BasicBlock]bool{}
			for _, x := range fn.Blocks {
				if x != b && x.Dominates(b) {
					backTargets[x] = true
				}
			}
			into := func(a, c *ssa.BasicBlock) bool { return a != c && !backTargets[a] && blockReach(a, backTargets)[c] }
			condBlock := b
			exitsFn := func(b *ssa.BasicBlock) bool {
				if len(b.Instrs) == 0 {
					return false
				}
				switch b.Instrs[len(b.Instrs)-1].(type) {
				case *ssa.Return, *ssa.Panic:
					return true
				}
				return false
			}
			leaves := func(b *ssa.BasicBlock) bool {
				if len(b.Instrs) == 0 {
					return false
				}
				switch b.Instrs[len(b.Instrs)-1].(type) {
				case *ssa.Return, *ssa.Panic:
					return true
				case *ssa.Jump:
					// `continue`: the side jumps straight back to a block that dominates the decision (the loop head)
					if len(b.Succs) == 1 && b.Succs[0] != condBlock && b.Succs[0].Dominates(condBlock) {
						return true
					}
				}
				return false
			}
			sig.Conds = append(sig.Conds, condSig{C: c, P: pair, T: ts, F: fs, TF: into(t, f) && !exitsFn(f), FT: into(f, t) && !exitsFn(t), TX: leaves(t), FX: leaves(f), at: pos})
		}
		// argument order at calls of repository functions
		eachInstr(fn, func(in ssa.Instruction) {
			ci, ok := in.(ssa.CallInstruction)
			if !ok {
				return
			}
			o := calleeObj(ci.Common())
			if o == nil || o.Pkg() == nil || !w.isRepoPkg(o.Pkg().Path()) {
				return
			}
			sg := o.Type().(*types.Signature)
			args := callArgs(ci.Common())
			if sg.Variadic() || sg.Params().Len() != len(args) || len(args) < 2 {
				return
			}
			same := false
			for i := 0; i < len(args); i++ {
				for j := i + 1; j < len(args); j++ {
					if types.Identical(sg.Params().At(i).Type(), sg.Params().At(j).Type()) {
						same = true
					}
				}
			}
			if !same {
				return
			}
			a := argSig{Callee: calleeName(w, ci.Common()), at: ci.Pos()}
			for i := 0; i < len(args); i++ {
				a.Params = append(a.Params, sg.Params().At(i).Name()+" "+types.TypeString(sg.Params().At(i).Type(), func(p *types.Package) string { return p.Name() }))
				a.Args = append(a.Args, w.sigString(args[i], 1))
			}
			sig.Args = append(sig.Args, a)
		})
	}
	for _, fn := range familyOf(root).Funcs {
		eachInstr(fn, func(in ssa.Instruction) {
			switch x := in.(type) {
			case ssa.CallInstruction:
				c := x.Common()
				if _, isB := c.Value.(*ssa.Builtin); isB {
					return
				}
				s := callSym(c)
				if s.name == "" || isLogLike(s) {
					return
				}
				if !c.IsInvoke() && !w.isRepoPkg(s.pkg) {
					// library calls: only those that act on the outside world are interesting, and B3 covers their presence
					return
				}
				o := opSig{K: "call", T: calleeName(w, c), at: x.Pos()}
				if c.IsInvoke() {
					o.Args = append(o.Args, w.sigString(c.Value, 2))
				}
				for _, a := range c.Args {
					o.Args = append(o.Args, w.sigString(a, 2))
				}
				if len(o.Args) > 0 {
					sig.Ops = append(sig.Ops, o)
				}
			case *ssa.Store:
				fa, ok := x.Addr.(*ssa.FieldAddr)
				if !ok {
					return
				}
				owner := "?"
				if n := namedOf(fa.X.Type()); n != nil {
					owner = n.Obj().Name()
				}
				sig.Ops = append(sig.Ops, opSig{K: "store", T: owner + "." + fieldName(fa.X.Type(), fa.Field), Args: []string{w.sigString(fa.X, 2), w.sigString(x.Val, 2)}, at: x.Pos()})
			case *ssa.Lookup:
				if _, isMap := x.X.Type().Underlying().(*types.Map); isMap && x.CommaOk {
					sig.Ops = append(sig.Ops, opSig{K: "lookup", T: "map", Args: []string{w.sigString(x.X, 2), w.sigString(x.Index, 2)}, at: x.Pos()})
				}
			case *ssa.MapUpdate:
				sig.Ops = append(sig.Ops, opSig{K: "mapupdate", T: "map", Args: []string{w.sigString(x.Map, 2), w.sigString(x.Key, 2), w.sigString(x.Value, 2)}, at: x.Pos()})
			}
		})
	}
	// shared-state accesses and the locks held at them
	for _, fn := range familyOf(root).Funcs {
		hasLock := false
		eachInstr(fn, func(in ssa.Instruction) {
			if a, k := w.lockFactsGen(in); len(a)+len(k) > 0 {
				hasLock = true
			}
		})
		if !hasLock && syncCallbackSite(fn) == nil {
			continue
		}
		eachInstr(fn, func(in ssa.Instruction) {
			var target ssa.Value
			mode := "r "
			switch x := in.(type) {
			case *ssa.MapUpdate:
				target, mode = x.Map, "w "
			case *ssa.Lookup:
				if _, isMap := x.X.Type().Underlying().(*types.Map); isMap {
					target = x.X
				}
			case *ssa.Store:
				if fa, ok := x.Addr.(*ssa.FieldAddr); ok {
					target, mode = fa, "w "
				}
			case *ssa.Call:
				if b, ok := x.Call.Value.(*ssa.Builtin); ok && b.Name() == "delete" && len(x.Call.Args) == 2 {
					target, mode = x.Call.Args[0], "w "
				}
			}
			if target == nil {
				return
			}
			ts := w.sigString(target, 2)
			// only state reached through the receiver / a parameter's fields (shared), not locals
			if !strings.HasPrefix(ts, "$") || !strings.Contains(ts, ".") {
				return
			}
			held := w.locksHeldAt(in)
			var ls []string
			for f := range held {
				p := f[2:]
				if i := strings.Index(p, "["); i >= 0 {
					p = p[:i]
				}
				p = strings.TrimSuffix(strings.TrimSuffix(p, ".RWMutex"), ".Mutex")
				if j := strings.LastIndex(p, "."); j >= 0 {
					p = p[j+1:]
				}
				ls = append(ls, f[:1]+":"+p)
			}
			sort.Strings(ls)
			sig.Locks = append(sig.Locks, lockSig{A: mode + ts, Locks: ls, at: in.Pos()})
		})
	}
	sig.Calls = sortedKeys(calls)
	for _, g := range familyOf(root).Funcs {
		pre := ""
		if g != root {
			pre = strings.TrimPrefix(g.Name(), root.Name()) + ":"
		}
		for _, o := range w.orderSigs(g) {
			o.E = pre + o.E
			for i := range o.A {
				o.A[i] = pre + o.A[i]
			}
			for i := range o.B {
				o.B[i] = pre + o.B[i]
			}
			sig.Order = append(sig.Order, o)
		}
	}
	return sig
}

// errOriginAt: like errOrigin, but for an error variable that is assigned many times (one `err` reused through a long
// function) the call is the one whose store is the closest one dominating the tested load.
func errOriginAt(fam *Family, v ssa.Value) *ssa.Call {
	ld, ok := v.(*ssa.UnOp)
	if !ok || ld.Op != token.MUL {
		return errOrigin(fam, v)
	}
	al, ok := fam.canon(ld.X).(*ssa.Alloc)
	if !ok {
		return errOrigin(fam, v)
	}
	var best *ssa.Store
	for _, st := range fam.stores[al] {
		if st.Parent() != ld.Parent() || !instrDominates(st, ld) {
			continue
		}
		if best == nil || instrDominates(best, st) {
			best = st
		}
	}
	if best == nil {
		return nil
	}
	// no other store may lie between best and the load
	for _, st := range fam.stores[al] {
		if st != best && st.Parent() == ld.Parent() && instrReaches(best, st) && instrReaches(st, ld) && !instrDominates(st, best) {
			return nil
		}
	}
	for _, x := range backSlice(best.Val, SliceOpts{MaxDepth: 4, NoAggregates: true}) {
		if c, ok := x.(*ssa.Call); ok {
			return c
		}
	}
	return nil
}

// reachesInPass: a is executed before b within one pass of the loops enclosing a (back edges — edges into a block that
// dominates a's block — are not followed).
func reachesInPass(a, b ssa.Instruction) bool {
	if a.Parent() != b.Parent() {
		return false
	}
	if a.Block() == b.Block() {
		return instrIndex(a) < instrIndex(b)
	}
	return passReach(a.Block())[b.Block()]
}

// passReach: the blocks reachable from `from` without starting another pass of a loop that contains `from`: a block
// that dominates `from` is entered only when it is a loop header (it is passed through towards the loop's exit), never
// when it is the way back into the body.
func passReach(from *ssa.BasicBlock) map[*ssa.BasicBlock]bool {
	isHeader := func(x *ssa.BasicBlock) bool {
		for _, p := range x.Preds {
			if x == p || x.Dominates(p) {
				return true
			}
		}
		return false
	}
	seen := map[*ssa.BasicBlock]bool{}
	var dfs func(x *ssa.BasicBlock)
	dfs = func(x *ssa.BasicBlock) {
		for _, sc := range x.Succs {
			if seen[sc] || sc == from {
				continue
			}
			if sc.Dominates(from) && !isHeader(sc) {
				continue
			}
			seen[sc] = true
			dfs(sc)
		}
	}
	dfs(from)
	return seen
}

// orderSigs: see orderSig. One function body (the declared function or one of its literals) at a time.
func (w *World) orderSigs(fn *ssa.Function) []orderSig {
	if len(fn.Blocks) == 0 {
		return nil
	}
	type item struct {
		in   ssa.Instruction
		name string
	}
	var effects, fallible []item
	failSide := map[ssa.Instruction]*ssa.BasicBlock{}
	isSync := func(s sym) bool {
		return s.pkg == "sync" || strings.Contains(s.pkg, "go-deadlock") || s.pkg == "sync/atomic" || strings.HasSuffix(s.pkg, "/atomic")
	}
	// error tests whose failure branch leaves the function
	fam := familyOf(fn)
	for _, b := range fn.Blocks {
		v, nn, isNil, ok := errNilTest(b)
		if !ok {
			continue
		}
		org := errOriginAt(fam, v)
		if org == nil || org.Parent() != fn {
			continue
		}
		rn, rs := passReach(nn), passReach(isNil)
		rn[nn], rs[isNil] = true, true
		rejoin := false
		for x := range rn {
			if rs[x] {
				rejoin = true
			}
		}
		if rejoin {
			continue
		}
		if _, dup := failSide[org]; dup {
			continue
		}
		failSide[org] = nn
		fallible = append(fallible, item{org, calleeName(w, org.Common())})
	}
	resultsUnused := func(c *ssa.Call) bool {
		if c.Referrers() == nil {
			return true
		}
		for _, ref := range *c.Referrers() {
			switch x := ref.(type) {
			case *ssa.DebugRef:
			case *ssa.Extract:
				if !isErrorType(x.Type()) {
					return false
				}
			case *ssa.Store, *ssa.BinOp, *ssa.Phi, *ssa.MakeInterface, *ssa.Return:
				if !isErrorType(c.Type()) {
					return false
				}
			default:
				if !isErrorType(c.Type()) {
					return false
				}
			}
		}
		return true
	}
	for _, b := range fn.Blocks {
		for _, in := range b.Instrs {
			switch x := in.(type) {
			case *ssa.Call:
				c := x.Common()
				if bi, isB := c.Value.(*ssa.Builtin); isB {
					if (bi.Name() == "delete" || bi.Name() == "close") && len(c.Args) > 0 {
						effects = append(effects, item{in, "builtin." + bi.Name() + " " + types.TypeString(c.Args[0].Type(), func(p *types.Package) string { return p.Name() })})
					}
					continue
				}
				s := callSym(c)
				if s.name == "" || isLogLike(s) || isSync(s) || strings.HasPrefix(s.name, "New") || strings.HasSuffix(s.pkg, "/error") {
					continue
				}
				if !resultsUnused(x) {
					continue
				}
				effects = append(effects, item{in, calleeName(w, c)})
			case *ssa.Go:
				effects = append(effects, item{in, "go " + calleeName(w, x.Common())})
			case *ssa.Send:
				effects = append(effects, item{in, "send " + w.sigString(x.Chan, 2)})
			case *ssa.MapUpdate:
				if ts := w.sigString(x.Map, 2); strings.HasPrefix(ts, "$") && strings.Contains(ts, ".") {
					effects = append(effects, item{in, "w " + ts + "[]"})
				}
			case *ssa.Store:
				if fa, ok := x.Addr.(*ssa.FieldAddr); ok {
					if ts := w.sigString(fa, 2); strings.HasPrefix(ts, "$") && strings.Contains(ts, ".") {
						effects = append(effects, item{in, "w " + ts})
					}
				}
			}
		}
	}
	number := func(items []item) []string {
		sort.SliceStable(items, func(i, j int) bool { return items[i].in.Pos() < items[j].in.Pos() })
		cnt := map[string]int{}
		out := make([]string, len(items))
		for i, it := range items {
			cnt[it.name]++
			out[i] = fmt.Sprintf("%s#%d", it.name, cnt[it.name])
		}
		return out
	}
	en, fnm := number(effects), number(fallible)
	var out []orderSig
	for i, e := range effects {
		o := orderSig{E: en[i], at: e.in.Pos()}
		for j, f := range fallible {
			if f.in == e.in {
				continue
			}
			fe, ef := reachesInPass(f.in, e.in), reachesInPass(e.in, f.in)
			switch {
			case fe && !ef:
				nn := failSide[f.in]
				r := passReach(nn)
				r[nn] = true
				if !r[e.in.Block()] {
					o.B = append(o.B, fnm[j])
				}
			case ef && !fe:
				o.A = append(o.A, fnm[j])
			}
		}
		if len(o.A)+len(o.B) > 0 {
			sort.Strings(o.A)
			sort.Strings(o.B)
			out = append(out, o)
		}
	}
	return out
}

func sigKeyOf(fn *ssa.Function) string {
	s := fnSym(fn)
	return s.pkg + "\t" + s.recv + "\t" + s.name
}

func allAnchored(w *World) []*ssa.Function {
	seen := map[*ssa.Function]bool{}
	var out []*ssa.Function
	for i := 1; i <= 20; i++ {
		for _, f := range anchoredFuncs(w, fmt.Sprintf("C%02d", i)) {
			if !seen[f] {
				seen[f] = true
				out = append(out, f)
			}
		}
	}
	return out
}

func writeBaselineSigs(w *World, path string) error {
	out := map[string]funcSig{}
	for _, f := range allAnchored(w) {
		out[sigKeyOf(f)] = w.computeSig(f)
	}
	b, _ := json.MarshalIndent(out, "", " ")
	return os.WriteFile(path, b, 0o644)
}

var tupleIdx = regexp.MustCompile(`#\d+`)

// normEffectArg: the table a delete / close acts on, without the tuple positions of how the value was fetched
// (`v, ok := m[k]` and `m[k]` name the same entry).
func normEffectArg(s string) string { return tupleIdx.ReplaceAllString(s, "") }

func dropAccessors(xs []string) []string {
	out := []string{}
	for _, x := range xs {
		n := x
		if i := strings.LastIndexAny(n, ".)"); i >= 0 {
			n = n[i+1:]
		}
		if strings.HasPrefix(n, "Get") || strings.HasPrefix(n, "Is") || strings.HasPrefix(n, "Has") || n == "Type" || n == "Size" || n == "String" || n == "Error" || n == "ID" || n == "Name" || n == "Len" {
			continue
		}
		out = append(out, x)
	}
	return out
}

func eqSet(a, b []string) bool {
	if len(a) != len(b) {
		return false
	}
	for i := range a {
		if a[i] != b[i] {
			return false
		}
	}
	return true
}

// sigRules: B1–B4 for one property.
func sigRules(w *World, r *Report, prop string) {
	r.Rule(prop+"-B1", "decisions keep their polarity", "in the anchored functions, a branch whose canonical condition is found again selects the same side for the same effects as in the reference tree (not the exactly exchanged sides)", 1)
	r.Rule(prop+"-B2", "comparisons keep their boundary", "a comparison of the same two canonical operands, with unchanged sides, uses the same relation as in the reference tree", 0)
	r.Rule(prop+"-B3", "effects of the reference are still performed", "every cross-package callee, interface method, channel send or go statement the function family performs in the reference tree is still performed somewhere in it", 1)
	r.Rule(prop+"-B4", "arguments keep their positions", "at a call of a repository function found again, two argument expressions of the reference are not passed in exchanged positions", 0)
	var base map[string]funcSig
	if err := json.Unmarshal(baselineSigsJSON, &base); err != nil || len(base) == 0 {
		r.Undecided(prop+"-B1", "reference signatures", 0, "baseline_sigs.json is empty or unreadable")
		return
	}
	r.Rule(prop+"-B5", "operands keep their identity", "at a call of a repository function / interface method, a field store or a map update found again, exactly one operand differs from the reference and the new operand is another value the reference function already uses elsewhere: the wrong one of two same-typed values is used", 0)
	r.Rule(prop+"-B7", "guards keep leaving", "a decision found again whose one side left the function in the reference tree (and whose other side is unchanged) still leaves it on that side", 0)
	r.Rule(prop+"-B6", "accesses keep their locks", "an access to shared state (a field of the receiver / of a parameter, or a map held in one) found again is made with at least the locks held in the reference tree", 0)
	r.Rule(prop+"-B9", "effects keep their side of the steps that can fail", "an effect found again (a call made for its effect, a write to shared state, a send, a go statement) that the reference tree performs only after a fallible step succeeded is not performed before that step (it would happen although the step fails), and one performed before a fallible step is not moved behind its success (it would no longer happen when the step fails)", 0)
	nOrd := 0
	nLock := 0
	nOp := 0
	nCond, nCall, nArg, nCmp := 0, 0, 0, 0
	for _, fn := range anchoredFuncs(w, prop) {
		ref, ok := base[sigKeyOf(fn)]
		if !ok {
			continue
		}
		cur := w.computeSig(fn)
		host := shortFn2(fn)
		// ---- B9
		{
			base := func(k string) string { return k[:strings.LastIndex(k, "#")] }
			count := func(os []orderSig) (map[string]int, map[string]int) {
				e, f := map[string]int{}, map[string]int{}
				seenF := map[string]bool{}
				for _, o := range os {
					e[base(o.E)]++
					for _, x := range append(append([]string{}, o.A...), o.B...) {
						if !seenF[x] {
							seenF[x] = true
							f[base(x)]++
						}
					}
				}
				return e, f
			}
			re, rf := count(ref.Order)
			ce, cf := count(cur.Order)
			curBy := map[string]orderSig{}
			for _, o := range cur.Order {
				curBy[o.E] = o
			}
			has := func(xs []string, x string) bool {
				for _, y := range xs {
					if y == x {
						return true
					}
				}
				return false
			}
			for _, ro := range ref.Order {
				co, found := curBy[ro.E]
				if !found || re[base(ro.E)] != ce[base(ro.E)] {
					continue
				}
				nOrd++
				for _, f := range ro.B {
					if rf[base(f)] == cf[base(f)] && has(co.A, f) {
						r.Fail(prop+"-B9", fmt.Sprintf("%s | %s ahead of %s", host, clip(ro.E, 80), clip(f, 60)), co.at, "the reference tree performs this effect only after "+f+" succeeded; it is now performed before that step, so it happens although the step fails (and the function reports the failure)")
					}
				}
				for _, f := range ro.A {
					if rf[base(f)] == cf[base(f)] && has(co.B, f) {
						r.Fail(prop+"-B9", fmt.Sprintf("%s | %s behind %s", host, clip(ro.E, 80), clip(f, 60)), co.at, "the reference tree performs this effect before "+f+"; it is now performed only after that step succeeded, so it no longer happens when the step fails (what the failure path relies on — a registration to clean up, a released resource — is missing)")
					}
				}
			}
		}
		// ---- B1 / B2
		group := func(cs []condSig, key func(condSig) string) map[string][]condSig {
			m := map[string][]condSig{}
			for _, c := range cs {
				if k := key(c); k != "" {
					m[k] = append(m[k], c)
				}
			}
			return m
		}
		refC, curC := group(ref.Conds, func(c condSig) string { return c.C }), group(cur.Conds, func(c condSig) string { return c.C })
		for _, k := range sortedKeys(refC) {
			rs, cs := refC[k], curC[k]
			if len(rs) != len(cs) {
				continue
			}
			for i := range rs {
				nCond++
				cons := fmt.Sprintf("%s | branch on %s", host, clip(k, 90))
				if len(rs) > 1 {
					cons = fmt.Sprintf("%s #%d", cons, i+1)
				}
				lost := func(refSide, curSide []string) bool {
					had, has := false, false
					for _, x := range refSide {
						if x == "·return" {
							had = true
						}
					}
					for _, x := range curSide {
						if x == "·return" || x == "·panic" {
							has = true
						}
					}
					return had && !has
				}
				_ = lost
				if (rs[i].TX && !cs[i].TX && cs[i].TF && !rs[i].TF) || (rs[i].FX && !cs[i].FX && cs[i].FT && !rs[i].FT) {
					r.Fail(prop+"-B7", cons, cs[i].at, "in the reference tree the function is left on one side of this decision (a guard that rejects, an error exit); in this tree that side falls through into the code the guard protected, while the other side is unchanged: the `return` was removed or moved")
					continue
				}
				// accessor calls (msg.Type(), x.GetName()) are part of evaluating the next operand of a short-circuit
				// chain, not an effect of the decision: a compound condition moved into a named boolean changes where they
				// sit without changing any outcome
				rT, rF, cT, cF := dropAccessors(rs[i].T), dropAccessors(rs[i].F), dropAccessors(cs[i].T), dropAccessors(cs[i].F)
				if !eqSet(rT, rF) && eqSet(cT, rF) && eqSet(cF, rT) {
					r.Fail(prop+"-B1", cons, cs[i].at, fmt.Sprintf("the two sides of this decision are exchanged with respect to the reference tree: what ran only when the condition held (%s) now runs only when it does not, and vice versa (%s) — the test was negated or its bodies swapped", clip(strings.Join(rs[i].T, ", "), 120), clip(strings.Join(rs[i].F, ", "), 120)))
				} else {
					r.OK(prop+"-B1", cons, cs[i].at, "same polarity as the reference")
				}
			}
		}
		refP, curP := group(ref.Conds, func(c condSig) string { return c.P }), group(cur.Conds, func(c condSig) string { return c.P })
		for _, k := range sortedKeys(refP) {
			rs, cs := refP[k], curP[k]
			if len(rs) != len(cs) {
				continue
			}
			for i := range rs {
				if rs[i].C == cs[i].C {
					nCmp++
					continue
				}
				// same operands, different relation; sides unchanged => the boundary moved
				if eqSet(rs[i].T, cs[i].T) && eqSet(rs[i].F, cs[i].F) && !eqSet(rs[i].T, rs[i].F) {
					r.Fail(prop+"-B2", fmt.Sprintf("%s | comparison of %s", host, clip(k, 90)), cs[i].at, fmt.Sprintf("the reference tree tests `%s`, this tree tests `%s` with the same consequences on both sides: the boundary case (equality) changed sides", rs[i].C, cs[i].C))
				}
			}
		}
		// ---- B6
		{
			grp := func(ls []lockSig) map[string][]lockSig {
				m := map[string][]lockSig{}
				for _, l := range ls {
					m[l.A] = append(m[l.A], l)
				}
				return m
			}
			rg, cg := grp(ref.Locks), grp(cur.Locks)
			for _, k := range sortedKeys(rg) {
				rs, cs := rg[k], cg[k]
				if len(rs) != len(cs) {
					continue
				}
				for i := range rs {
					nLock++
					have := map[string]bool{}
					for _, l := range cs[i].Locks {
						have[l] = true
						if l[0] == 'W' {
							have["R"+l[1:]] = true
						}
					}
					for _, l := range rs[i].Locks {
						if !have[l] {
							r.Fail(prop+"-B6", fmt.Sprintf("%s | %s #%d", host, clip(k, 80), i+1), cs[i].at, fmt.Sprintf("the reference tree makes this access with lock %s held; in this tree the lock is not held on every path reaching it (taken later, released earlier, or the access moved out of the critical section)", l))
						}
					}
				}
			}
		}
		// ---- B5
		{
			vocab := map[string]bool{}
			for _, o := range ref.Ops {
				for _, a := range o.Args {
					vocab[a] = true
				}
			}
			grp := func(os []opSig) map[string][]opSig {
				m := map[string][]opSig{}
				for _, o := range os {
					m[o.K+" "+o.T] = append(m[o.K+" "+o.T], o)
				}
				return m
			}
			rg, cg := grp(ref.Ops), grp(cur.Ops)
			for _, k := range sortedKeys(rg) {
				rs, cs := rg[k], cg[k]
				if len(rs) != len(cs) {
					continue
				}
				for i := range rs {
					if len(rs[i].Args) != len(cs[i].Args) {
						continue
					}
					nOp++
					diff := -1
					nd := 0
					for a := range rs[i].Args {
						if rs[i].Args[a] != cs[i].Args[a] {
							nd++
							diff = a
						}
					}
					if nd != 1 {
						continue
					}
					nv, ov := cs[i].Args[diff], rs[i].Args[diff]
					if !vocab[nv] || nv == "…" || ov == "…" || strings.Contains(nv, "…") || strings.Contains(ov, "…") {
						continue
					}
					// constants and nil are not "another value of the function"
					if nv == "nil" || nv == "true" || nv == "false" || (len(nv) > 0 && (nv[0] == '"' || (nv[0] >= '0' && nv[0] <= '9'))) {
						continue
					}
					r.Fail(prop+"-B5", fmt.Sprintf("%s | %s #%d operand %d", host, k, i+1, diff), cs[i].at, fmt.Sprintf("the reference tree uses `%s` here, this tree uses `%s`, a different value that the function also handles: the wrong one of two same-typed values is passed / stored (every other operand is unchanged)", clip(ov, 80), clip(nv, 80)))
				}
			}
		}
		// ---- B3
		have := map[string]bool{}
		for _, c := range cur.Calls {
			have[c] = true
		}
		for _, c := range ref.Calls {
			nCall++
			if have[c] {
				continue
			}
			if !w.calleeStillExists(c) {
				continue
			}
			r.Fail(prop+"-B3", fmt.Sprintf("%s | %s", host, c), fn.Pos(), "the reference tree performs this effect in this function (or its literals), this tree does not although the callee still exists: a call, send or goroutine start was removed")
		}
		// ---- B4
		refA := map[string][]argSig{}
		for _, a := range ref.Args {
			refA[a.Callee] = append(refA[a.Callee], a)
		}
		curA := map[string][]argSig{}
		for _, a := range cur.Args {
			curA[a.Callee] = append(curA[a.Callee], a)
		}
		for _, k := range sortedKeys(refA) {
			rs, cs := refA[k], curA[k]
			if len(rs) != len(cs) {
				continue
			}
			for i := range rs {
				if strings.Join(rs[i].Params, ";") != strings.Join(cs[i].Params, ";") || len(rs[i].Args) != len(cs[i].Args) {
					continue
				}
				nArg++
				for a := 0; a < len(rs[i].Args); a++ {
					for b := a + 1; b < len(rs[i].Args); b++ {
						if rs[i].Args[a] != rs[i].Args[b] && cs[i].Args[a] == rs[i].Args[b] && cs[i].Args[b] == rs[i].Args[a] {
							r.Fail(prop+"-B4", fmt.Sprintf("%s | call of %s #%d arguments %d,%d", host, k, i+1, a, b), cs[i].at, fmt.Sprintf("the reference tree passes (%s, %s) for parameters (%s, %s); this tree passes them exchanged", clip(rs[i].Args[a], 60), clip(rs[i].Args[b], 60), rs[i].Params[a], rs[i].Params[b]))
						}
					}
				}
			}
		}
	}
	r.OK(prop+"-B9", "census", 0, fmt.Sprintf("%d effects with a fallible step before or after them found again", nOrd))
	r.OK(prop+"-B7", "census", 0, fmt.Sprintf("%d decisions matched with the reference", nCond))
	r.OK(prop+"-B6", "census", 0, fmt.Sprintf("%d shared-state accesses matched with the reference", nLock))
	r.OK(prop+"-B5", "census", 0, fmt.Sprintf("%d operations matched with the reference", nOp))
	r.OK(prop+"-B2", "census", 0, fmt.Sprintf("%d comparisons matched with the reference", nCmp))
	r.OK(prop+"-B3", "census", 0, fmt.Sprintf("%d reference effects looked for", nCall))
	r.OK(prop+"-B4", "census", 0, fmt.Sprintf("%d calls with same-typed parameters matched with the reference", nArg))
	if nCond == 0 {
		r.Fail(prop+"-B1", "census", 0, "no branch of the anchored functions could be matched with the reference signatures: the rules no longer see the code they were written for")
	}
}

func clip(s string, n int) string {
	if len(s) > n {
		return s[:n] + "…"
	}
	return s
}

// calleeStillExists: for "pkg.(Recv).name" / "pkg.name" effect names: is there still such a function or method?
func (w *World) calleeStillExists(name string) bool {
	name = strings.TrimPrefix(strings.TrimPrefix(name, "go "), "defer ")
	if strings.HasPrefix(name, "send ") || strings.HasPrefix(name, "dyn:") {
		return true
	}
	// name is sym.String(): shortpkg.(recv).name or shortpkg.name — resolve among all functions of the program
	for fn := range w.AllFuncs() {
		if fn.Pkg == nil || fn.Parent() != nil {
			continue
		}
		if fnSym(fn).String() == name {
			return true
		}
	}
	// interface methods and functions without bodies (export data only): assume they exist
	return !strings.Contains(name, "milvus-cdc") && true
}
