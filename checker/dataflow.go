package main

import (
	"go/token"
	"go/types"
	"strings"

	"golang.org/x/tools/go/ssa"
)

// storesToPath lists the stores (in the family of fn) whose address has the given access path.
func (w *World) storesToPath(fam *Family, path string) []*ssa.Store {
	var out []*ssa.Store
	for _, in := range fam.allInstr {
		st, ok := in.(*ssa.Store)
		if !ok {
			continue
		}
		if w.accessPath(st.Addr) == path {
			out = append(out, st)
		}
	}
	return out
}

// latestDominating picks, among stores, those that dominate `at` and are not
// themselves dominated by another such store (the last write on every path).
func latestDominating(stores []*ssa.Store, at ssa.Instruction) []*ssa.Store {
	var dom []*ssa.Store
	for _, s := range stores {
		if s.Parent() == at.Parent() && instrDominates(s, at) {
			dom = append(dom, s)
		}
	}
	var out []*ssa.Store
	for _, s := range dom {
		last := true
		for _, t := range dom {
			if t != s && instrDominates(s, t) {
				last = false
			}
		}
		if last {
			out = append(out, s)
		}
	}
	return out
}

// PathValue is the outcome of resolving a field path on an object at a program point.
type PathValue struct {
	Vals     []ssa.Value // values that may be in the field at `at` (from stores found)
	Unset    bool        // no store found anywhere on the chain: the field holds what the object came with
	FinalKey string      // the access path the search ended on
	// MaybeOther: some non-dominating store to the same path exists (value may differ on some path)
	MaybeOther bool
}

// resolveFieldPath finds what is stored in objPath.rest[0].rest[1]... at instruction `at`.
func (w *World) resolveFieldPath(fam *Family, objPath string, rest []string, at ssa.Instruction, depth int) PathValue {
	full := objPath
	if len(rest) > 0 {
		full = objPath + "." + strings.Join(rest, ".")
	}
	if depth > 6 {
		return PathValue{Unset: true, FinalKey: full}
	}
	if sts := w.storesToPath(fam, full); len(sts) > 0 {
		lat := latestDominating(sts, at)
		if len(lat) > 0 {
			pv := PathValue{FinalKey: full}
			for _, s := range lat {
				pv.Vals = append(pv.Vals, s.Val)
			}
			// stores that may execute after the dominating one but before `at`
			for _, s := range sts {
				isLat := false
				for _, l := range lat {
					if l == s {
						isLat = true
					}
				}
				if !isLat && s.Parent() == at.Parent() && instrReaches(s, at) {
					later := false
					for _, l := range lat {
						if instrReaches(l, s) {
							later = true
						}
					}
					if later {
						pv.MaybeOther = true
						pv.Vals = append(pv.Vals, s.Val)
					}
				}
			}
			return pv
		}
		// stores exist but none dominates: may-values
		pv := PathValue{FinalKey: full, MaybeOther: true}
		for _, s := range sts {
			if s.Parent() == at.Parent() && instrReaches(s, at) {
				pv.Vals = append(pv.Vals, s.Val)
			}
		}
		if len(pv.Vals) > 0 {
			pv.Unset = true // on some path nothing was stored
			return pv
		}
	}
	// a prefix was assigned as a whole
	for i := len(rest) - 1; i >= 1; i-- {
		pre := objPath + "." + strings.Join(rest[:i], ".")
		sts := w.storesToPath(fam, pre)
		lat := latestDominating(sts, at)
		if len(lat) == 0 {
			continue
		}
		var merged PathValue
		for k, s := range lat {
			np := w.accessPath(s.Val)
			var use ssa.Instruction = s
			pv := w.resolveFieldPath(fam, np, rest[i:], use, depth+1)
			if k == 0 {
				merged = pv
			} else {
				merged.Vals = append(merged.Vals, pv.Vals...)
				merged.Unset = merged.Unset || pv.Unset
				merged.MaybeOther = merged.MaybeOther || pv.MaybeOther
			}
			// composite literal value stored as a whole (struct value from a local alloc)
		}
		return merged
	}
	return PathValue{Unset: true, FinalKey: full}
}

// leafVerdict is used by mustDerive.
type leafVerdict int

const (
	leafGood leafVerdict = iota
	leafBad
	leafDescend
)

// mustDerive checks that every data source of v is accepted by classify. It
// walks through phis, conversions, local variables (all stores), append and
// string concatenation. It returns false and the offending value otherwise.
func mustDerive(v ssa.Value, classify func(ssa.Value) leafVerdict) (bool, ssa.Value) {
	seen := map[ssa.Value]bool{}
	var bad ssa.Value
	var walk func(v ssa.Value, d int) bool
	walk = func(v ssa.Value, d int) bool {
		if v == nil {
			return true
		}
		if seen[v] {
			return true
		}
		seen[v] = true
		switch classify(v) {
		case leafGood:
			return true
		case leafBad:
			bad = v
			return false
		}
		if d > 14 {
			bad = v
			return false
		}
		switch x := v.(type) {
		case *ssa.Phi:
			nonZero := 0
			for _, e := range x.Edges {
				if !isZeroConst(e) {
					nonZero++
				}
			}
			for _, e := range x.Edges {
				// the zero value a variable starts with is not a data source (same as an unassigned local)
				if nonZero > 0 && isZeroConst(e) {
					continue
				}
				if !walk(e, d+1) {
					return false
				}
			}
			return true
		case *ssa.BinOp:
			return walk(x.X, d+1) && walk(x.Y, d+1)
		case *ssa.ChangeType:
			return walk(x.X, d+1)
		case *ssa.Convert:
			return walk(x.X, d+1)
		case *ssa.MakeInterface:
			return walk(x.X, d+1)
		case *ssa.Slice:
			return walk(x.X, d+1)
		case *ssa.UnOp:
			if x.Op == token.MUL {
				fn := x.Parent()
				fam := familyOf(fn)
				a := fam.canon(x.X)
				if al, ok := a.(*ssa.Alloc); ok {
					sts := fam.stores[al]
					if len(sts) == 0 {
						return true // zero value
					}
					for _, st := range sts {
						if !walk(st.Val, d+1) {
							return false
						}
					}
					return true
				}
			}
			bad = v
			return false
		case *ssa.Call:
			if b, ok := x.Call.Value.(*ssa.Builtin); ok && b.Name() == "append" {
				for _, a := range x.Call.Args {
					if !walk(a, d+1) {
						return false
					}
				}
				return true
			}
			bad = v
			return false
		case *ssa.Alloc:
			// locally built array (varargs) or struct: everything stored in it
			fam := familyOf(x.Parent())
			for _, in := range fam.allInstr {
				st, ok := in.(*ssa.Store)
				if !ok {
					continue
				}
				switch a := st.Addr.(type) {
				case *ssa.IndexAddr:
					if a.X == ssa.Value(x) && !walk(st.Val, d+1) {
						return false
					}
				}
			}
			return true
		case *ssa.MakeSlice:
			return true
		case *ssa.Const:
			if x.Value == nil { // nil slice etc.
				return true
			}
			bad = v
			return false
		}
		bad = v
		return false
	}
	ok := walk(v, 0)
	return ok, bad
}

// extractOf reports whether v is result #idx of a call to s.
func extractOf(v ssa.Value, s sym, idx int) bool {
	e, ok := v.(*ssa.Extract)
	if !ok || e.Index != idx {
		return false
	}
	c, ok := e.Tuple.(*ssa.Call)
	return ok && callSym(c.Common()) == s
}

// mayDeriveFromCall reports whether the backward slice of v contains a result of a call to s.
func mayDeriveFromCall(v ssa.Value, s sym) (*ssa.Call, bool) {
	for _, x := range backSlice(v, SliceOpts{ThroughArg: appendArgs}) {
		switch y := x.(type) {
		case *ssa.Extract:
			if c, ok := y.Tuple.(*ssa.Call); ok && callSym(c.Common()) == s {
				return c, true
			}
		case *ssa.Call:
			if callSym(y.Common()) == s {
				return y, true
			}
		}
	}
	return nil, false
}

func appendArgs(c *ssa.CallCommon) []ssa.Value {
	if b, ok := c.Value.(*ssa.Builtin); ok && b.Name() == "append" {
		return c.Args
	}
	return nil
}

// structFieldPaths enumerates field paths (by name) of a (pointer to) struct type
// down to maxDepth, following embedded and pointer fields, calling f for each.
func structFieldPaths(t types.Type, maxDepth int, f func(path []string, fv *types.Var)) {
	var rec func(t types.Type, path []string, d int, seen map[types.Type]bool)
	rec = func(t types.Type, path []string, d int, seen map[types.Type]bool) {
		for {
			if p, ok := t.Underlying().(*types.Pointer); ok {
				t = p.Elem()
				continue
			}
			break
		}
		st, ok := t.Underlying().(*types.Struct)
		if !ok || seen[t] {
			return
		}
		seen[t] = true
		defer delete(seen, t)
		for i := 0; i < st.NumFields(); i++ {
			fv := st.Field(i)
			np := append(append([]string{}, path...), fv.Name())
			f(np, fv)
			if d < maxDepth {
				rec(fv.Type(), np, d+1, seen)
			}
		}
	}
	rec(t, nil, 0, map[types.Type]bool{})
}

func isZeroConst(v ssa.Value) bool {
	c, ok := v.(*ssa.Const)
	if !ok {
		return false
	}
	if c.Value == nil {
		return true
	}
	s := c.Value.ExactString()
	return s == `""` || s == "0" || s == "false"
}

// getterRecv lets a slice look through Get* accessor calls to their receiver.
func getterRecv(c *ssa.CallCommon) []ssa.Value {
	if b, ok := c.Value.(*ssa.Builtin); ok && b.Name() == "append" {
		return c.Args
	}
	s := callSym(c)
	if strings.HasPrefix(s.name, "Get") && len(callArgs(c)) == 0 {
		if r := callRecv(c); r != nil {
			return []ssa.Value{r}
		}
	}
	return nil
}
