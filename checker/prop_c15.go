package main

import (
	"fmt"
	"go/token"
	"go/types"
	"strings"

	"golang.org/x/tools/go/ssa"
)

func init() {
	register("C15", &propDef{run: runC15,
		explain: "Structural necessary conditions of 'the start-up snapshot of dropped objects gives correct skip horizons', decided on EtcdOp.GetAllDroppedObj and the key vocabulary in core/util: (R1) no name that reaches a key constructor inside a loop is carried over from a previous iteration (every such variable is assigned on every path of the same iteration); (R2) every value stored into a result table has the shape `current source time - k` or `creation time of the live namesake - k` with a positive constant k, the creation time being looked up under the very key being updated; (R3) entries are written only under a dropped/dropping state test (or the database-gone test), or when re-visiting keys already in the result table; (R4) producer and consumer build keys only through util.Get*InfoKeys, the drop key is result 1, and the arguments carry the right roles (partition, collection, database) in the right order.",
		notDec:  []string{"that the catalog listing itself is complete", "the exact TSO arithmetic (only the shape t-k is decided)"},
	})
}

func runC15(w *World, r *Report) {
	defer catalogStatePairs(w, r, "C15-R10")
	r.Rule("C15-R1", "no loop-carried name reaches a key constructor", "inside the loops of GetAllDroppedObj every argument of util.Get*InfoKeys is defined in the current iteration: it does not flow from a phi at the loop header (value of the previous iteration)", 4)
	r.Rule("C15-R2", "horizon shape", "stores into the result tables are `tt - k` (tt = ComposeTSByTime of the TSO key) or `created[key] - k` with k a positive constant and the same key", 5)
	r.Rule("C15-R3", "entries only for dropped state", "every first-time store into a result table is dominated by a Dropped/Dropping state test or the database-gone test", 3)
	r.Rule("C15-R4", "one key vocabulary, right roles", "keys come from result 1 (drop key) / result 0 (create key) of util.Get*InfoKeys on both the producer and the writer side; arguments carry (partition, collection, database) roles in order", 8)

	r.Rule("C15-R5", "name keys are injective", "each util.Get*InfoKeys joins its name components so that distinct (database, collection, partition) tuples give distinct keys: between two adjacent name components the format has a character that cannot occur in a Milvus name (names are letters, digits, '_' and '$')", 3)
	ruleC15KeyInjective(w, r)
	ruleKeyComponentsVerbatim(w, r, "C15-R11")
	c15TombstoneExact(w, r)
	c15CatalogTables(w, r, "C15-R13")

	fn := w.Func(pkgReader, "EtcdOp", "GetAllDroppedObj")
	if fn == nil {
		r.Undecided("C15-R1", "GetAllDroppedObj", 0, "anchor not found")
		return
	}
	fam := familyOf(fn)
	keyFns := map[string][]string{"GetDBInfoKeys": {"db"}, "GetCollectionInfoKeys": {"collection", "db"}, "GetPartitionInfoKeys": {"partition", "collection", "db"}}

	// ---------- R1
	n := map[string]int{}
	eachInstr(fn, func(in ssa.Instruction) {
		c, ok := in.(*ssa.Call)
		if !ok {
			return
		}
		s := callSym(c.Common())
		if s.pkg != pkgUtil || keyFns[s.name] == nil {
			return
		}
		h := loopHeaderOf(c.Block())
		if h == nil {
			return
		}
		for i, a := range c.Call.Args {
			n[s.name]++
			cons := fmt.Sprintf("(*EtcdOp).GetAllDroppedObj | %s arg%d (%s)", s.name, i, keyFns[s.name][i])
			if n[s.name] > len(keyFns[s.name]) {
				cons = fmt.Sprintf("%s #%d", cons, (n[s.name]-1)/len(keyFns[s.name])+1)
			}
			carried := loopCarried(a, h, fam)
			r.Check(carried == nil, "C15-R1", cons, c.Pos(), "defined in the current iteration on every path", "on some path this name keeps the value a previous iteration left behind: the entry is keyed under another object's name")
		}
	})

	// ---------- result tables: maps reached through `res`
	var res *ssa.MakeMap
	eachInstr(fn, func(in ssa.Instruction) {
		if mm, ok := in.(*ssa.MakeMap); ok && res == nil {
			if strings.Contains(mm.Type().String(), "map[string]map[string]uint64") {
				res = mm
			}
		}
	})
	if res == nil {
		r.Undecided("C15-R2", "GetAllDroppedObj | result table", fn.Pos(), "result map not found")
		return
	}
	isResultInner := func(m ssa.Value) bool {
		for _, v := range backSlice(m, SliceOpts{MaxDepth: 6}) {
			if lk, ok := v.(*ssa.Lookup); ok && baseObject(fam, lk.X) == ssa.Value(res) {
				return true
			}
		}
		return false
	}
	k := 0
	eachInstr(fn, func(in ssa.Instruction) {
		mu, ok := in.(*ssa.MapUpdate)
		if !ok || !isResultInner(mu.Map) {
			return
		}
		if _, isMap := mu.Value.(*ssa.MakeMap); isMap {
			return
		}
		k++
		cons := fmt.Sprintf("(*EtcdOp).GetAllDroppedObj | result store#%d", k)
		// R2 shape
		bo, isB := mu.Value.(*ssa.BinOp)
		shape := false
		what := ""
		viaRange := false
		if isB && bo.Op == token.SUB {
			if c, isC := bo.Y.(*ssa.Const); isC && c.Value != nil && c.Value.ExactString() != "0" && !strings.HasPrefix(c.Value.ExactString(), "-") {
				// X = tt or created[key]
				for _, v := range backSlice(bo.X, SliceOpts{MaxDepth: 5}) {
					if call, isCall := v.(*ssa.Call); isCall && callSym(call.Common()).name == "ComposeTSByTime" {
						shape, what = true, "tt - "+c.Value.ExactString()
					}
					if lk, isLk := v.(*ssa.Lookup); isLk {
						if _, isMM := baseObject(fam, lk.X).(*ssa.MakeMap); isMM && baseObject(fam, lk.X) != ssa.Value(res) && lk.Index == mu.Key {
							shape, what, viaRange = true, "created[same key] - "+c.Value.ExactString(), true
						}
					}
				}
			}
		}
		r.Check(shape, "C15-R2", cons, mu.Pos(), what, "the value stored is not `source time - k` / `creation time of the live namesake (same key) - k` with k > 0: operations on a live object of that name could be skipped, or stale ones applied")
		// R3 dropped-state guard (not needed for the adjust loops that re-visit existing keys)
		if viaRange {
			// key must come from ranging over the result table itself
			fromRange := false
			for _, v := range backSlice(mu.Key, SliceOpts{MaxDepth: 5}) {
				if nx, isN := v.(*ssa.Next); isN {
					if rg, isR := nx.Iter.(*ssa.Range); isR && isResultInner(rg.X) {
						fromRange = true
					}
				}
			}
			r.Check(fromRange, "C15-R3", cons+" | only existing entries adjusted", mu.Pos(), "key ranges over the result table", "the adjustment loop can create entries for names that have no dropped incarnation")
			return
		}
		guarded := false
		for _, b := range fn.Blocks {
			cond, t, _, isIf := ifSuccs(b)
			if !isIf || !(t == mu.Block() || t.Dominates(mu.Block())) {
				continue
			}
			for _, v := range backSlice(cond, SliceOpts{MaxDepth: 4}) {
				if cmp, isC := v.(*ssa.BinOp); isC && (cmp.Op == token.EQL || cmp.Op == token.NEQ) {
					xp := w.accessPath(cmp.X)
					if strings.HasSuffix(xp, ".State") {
						if c, isConst := cmp.Y.(*ssa.Const); isConst && c.Value != nil {
							// CollectionDropping=2, CollectionDropped=3 ; PartitionDropping=2, PartitionDropped=3
							if cmp.Op == token.EQL && (c.Value.ExactString() == "2" || c.Value.ExactString() == "3") {
								guarded = true
							}
						}
					}
					// database gone: originDBName != dbName
					if cmp.Op == token.NEQ && strings.Contains(strings.ToLower(xp+w.accessPath(cmp.Y)), "getdatabasename") {
						guarded = true
					}
				}
			}
		}
		r.Check(guarded, "C15-R3", cons+" | guarded by dropped state", mu.Pos(), "under a Dropped/Dropping (or database-gone) test", "an entry is written for an object that is not dropped: operations on a live object would be skipped")
		// R4 the key is a drop key
		isDrop := false
		for name := range keyFns {
			if extractOf(mu.Key, sym{pkgUtil, "", name}, 1) {
				isDrop = true
			}
		}
		r.Check(isDrop, "C15-R4", cons+" | drop key", mu.Pos(), "key = result 1 of util.Get*InfoKeys", "the table is keyed by something other than the drop key of util.Get*InfoKeys: the writer will never find the entry")
	})

	// ---------- R7 no name-keyed memo between the passes
	r.Rule("C15-R7", "key components are not read from a memo keyed by a bare name", "inside GetAllDroppedObj no argument of util.Get*InfoKeys derives from a lookup in a map built in this function whose key is a single name (a collection name identifies a collection only together with its database / id)", 0)
	nMemo := 0
	eachInstr(fn, func(in ssa.Instruction) {
		c, ok := in.(*ssa.Call)
		if !ok {
			return
		}
		s := callSym(c.Common())
		if s.pkg != pkgUtil || keyFns[s.name] == nil {
			return
		}
		for i, a := range c.Call.Args {
			for _, v := range backSlice(a, SliceOpts{MaxDepth: 8, NoAggregates: true}) {
				lk, isLk := v.(*ssa.Lookup)
				if !isLk {
					continue
				}
				mt, isMap := lk.X.Type().Underlying().(*types.Map)
				if !isMap {
					continue
				}
				if _, local := baseObject(fam, lk.X).(*ssa.MakeMap); !local || baseObject(fam, lk.X) == ssa.Value(res) {
					continue
				}
				if b, isB := mt.Key().Underlying().(*types.Basic); !isB || b.Kind() != types.String {
					continue // keyed by an id
				}
				// composite keys (results of the key constructors) identify the object
				composite := false
				for _, kv := range backSlice(lk.Index, SliceOpts{MaxDepth: 4, NoAggregates: true}) {
					if kc, isC := kv.(*ssa.Call); isC && (keyFns[callSym(kc.Common()).name] != nil || callSym(kc.Common()).name == "Sprintf") {
						composite = true
					}
				}
				nMemo++
				r.Check(composite, "C15-R7", fmt.Sprintf("(*EtcdOp).GetAllDroppedObj | %s arg%d (%s) via local table #%d", s.name, i, keyFns[s.name][i], nMemo), lk.Pos(), "the table is keyed by a composite key", "this component of the key is read from a table of this function that is keyed by a bare name: two collections of the same name in different databases share the entry, so a partition is keyed under the other collection's database (a live object gets a drop horizon, a dropped one loses it)")
			}
		}
	})
	if nMemo == 0 {
		r.OK("C15-R7", "(*EtcdOp).GetAllDroppedObj | census", fn.Pos(), "no key component is read from a local table")
	}
	// ---------- R8 the result tables only grow
	r.Rule("C15-R8", "entries of the result tables are never removed", "no delete() on a table reached through the result map: every entry was recorded for a name that has a dropped incarnation (R3), removing one makes replayed operations on that incarnation run", 0)
	nDel := 0
	for _, g := range fam.Funcs {
		eachInstr(g, func(in ssa.Instruction) {
			c, ok := in.(*ssa.Call)
			if !ok {
				return
			}
			if b, isB := c.Call.Value.(*ssa.Builtin); !isB || b.Name() != "delete" {
				return
			}
			if isResultInner(c.Call.Args[0]) || baseObject(fam, c.Call.Args[0]) == ssa.Value(res) {
				nDel++
				r.Fail("C15-R8", fmt.Sprintf("(*EtcdOp).GetAllDroppedObj | delete from a result table #%d", nDel), c.Pos(), "an entry of the dropped-object snapshot is removed after it was recorded: the name has a dropped incarnation but no horizon, so operations replayed for that incarnation are not skipped (the task stops with 'not ready')")
			}
		})
	}
	if nDel == 0 {
		r.OK("C15-R8", "(*EtcdOp).GetAllDroppedObj | census", fn.Pos(), "no delete() on the result tables")
	}
	// ---------- R9 the id->name tables the snapshot reads are loaded by a checked call
	r.Rule("C15-R9", "the database table is loaded and its failure stops the snapshot", "GetAllDroppedObj calls a function that fills EtcdOp.dbID2Name (getDatabases) before the collection loop and tests its error on a branch that does not continue with the snapshot: an unreadable database listing must not turn into 'every database is gone' (an empty snapshot)", 1)
	{
		writers := map[*ssa.Function]bool{}
		for _, f := range w.RepoFuncs() {
			if f.Pkg == nil || f.Pkg.Pkg.Path() != pkgReader || f.Parent() != nil {
				continue
			}
			eachInstrDeep(f, func(_ *ssa.Function, in ssa.Instruction) {
				if c, ok := in.(*ssa.Call); ok && callSym(c.Common()).name == "Store" {
					if rv := callRecv(c.Common()); rv != nil && strings.HasSuffix(w.accessPath(rv), ".dbID2Name") {
						writers[f] = true
					}
				}
			})
		}
		var firstLoop *ssa.BasicBlock
		for _, b := range fn.Blocks {
			if loopHeaderOf(b) == b && firstLoop == nil {
				firstLoop = b
			}
		}
		okLoad := false
		var loadPos token.Pos
		eachInstr(fn, func(in ssa.Instruction) {
			c, ok := in.(*ssa.Call)
			if !ok || okLoad {
				return
			}
			cal := c.Common().StaticCallee()
			if cal == nil || !writers[cal] {
				return
			}
			loadPos = c.Pos()
			// its error is tested and the non-nil side cannot reach the first loop
			for _, b := range fn.Blocks {
				v, nn, _, isT := errNilTest(b)
				if !isT || errOrigin(fam, v) != c {
					continue
				}
				reach := blockReach(nn, nil)
				stops := true
				if firstLoop != nil && (reach[firstLoop] || nn == firstLoop) {
					// a log.Panic on the branch ends it as well
					stops = false
					for _, x := range nn.Instrs {
						if pc, isC := x.(*ssa.Call); isC && strings.HasSuffix(callSym(pc.Common()).pkg, "/log") && (callSym(pc.Common()).name == "Panic" || callSym(pc.Common()).name == "Fatal") {
							stops = true
						}
					}
				}
				if stops && (firstLoop == nil || c.Block().Dominates(firstLoop)) {
					okLoad = true
				}
			}
		})
		detail := "no call of a function that fills dbID2Name is made (directly) by GetAllDroppedObj"
		if loadPos.IsValid() {
			detail = "the error of the call that fills dbID2Name is not tested, or the failing branch continues with the snapshot"
		}
		if len(writers) == 0 {
			r.Undecided("C15-R9", "(*EtcdOp).GetAllDroppedObj | dbID2Name writers", fn.Pos(), "no function storing into EtcdOp.dbID2Name found")
		} else {
			r.Check(okLoad, "C15-R9", "(*EtcdOp).GetAllDroppedObj | database table loaded with a checked call", fn.Pos(), "getDatabases is called before the loops and its failure stops the snapshot", detail+": when the database listing fails every collection looks like 'database gone', is skipped, and the snapshot comes back empty without an error — dropped objects get no horizon")
		}
	}

	// ---------- R6 the horizon base is the SOURCE time only
	r.Rule("C15-R6", "horizons are measured on the source clock", "the time handed to ComposeTSByTime in GetAllDroppedObj derives from the TSO key read from the source catalog only: no local clock (time.Now / time.Since) flows into it", 1)
	nCompose := 0
	eachInstr(fn, func(in ssa.Instruction) {
		c, ok := in.(*ssa.Call)
		if !ok || callSym(c.Common()).name != "ComposeTSByTime" {
			return
		}
		nCompose++
		cons := fmt.Sprintf("(*EtcdOp).GetAllDroppedObj | ComposeTSByTime#%d time argument", nCompose)
		local := ""
		for _, x := range backSlice(callArgs(c.Common())[0], SliceOpts{MaxDepth: 10, ThroughArg: func(cc *ssa.CallCommon) []ssa.Value { return callArgs(cc) }}) {
			if cc, isCall := x.(*ssa.Call); isCall {
				cs := callSym(cc.Common())
				if cs.pkg == "time" && (cs.name == "Now" || cs.name == "Since" || cs.name == "Until") {
					local = "time." + cs.name
				}
			}
		}
		r.Check(local == "", "C15-R6", cons, c.Pos(), "derives from the parsed TSO key only", "the CDC host's own clock ("+local+") flows into the source time the horizons are computed from: with the source clock ahead of the local one the horizons end before the actual drop and dropped objects' operations are not skipped")
	})
	if nCompose == 0 {
		r.Undecided("C15-R6", "(*EtcdOp).GetAllDroppedObj | ComposeTSByTime", fn.Pos(), "no ComposeTSByTime call found: the horizon base is not understood")
	}

	// ---------- R4 roles at every key-function call in reader + writer
	roleOf := func(v ssa.Value) string {
		if s, ok := constString(v); ok && s == "" {
			return "empty"
		}
		roles := map[string]bool{}
		for _, x := range backSlice(v, SliceOpts{MaxDepth: 8}) {
			ap := strings.ToLower(w.accessPath(x))
			// a lookup in an id->name table carries the table's role
			if c, isCall := x.(*ssa.Call); isCall && strings.HasPrefix(callSym(c.Common()).name, "Load") {
				if rc := callRecv(c.Common()); rc != nil {
					tp := strings.ToLower(w.accessPath(rc))
					if strings.HasSuffix(tp, "2name") {
						ap = tp[:len(tp)-len("id2name")]
					}
				}
			}
			last := ap
			if i := strings.LastIndex(ap, "."); i >= 0 {
				last = ap[i+1:]
			}
			last = strings.TrimSuffix(last, "[]")
			if i := strings.Index(last, "@"); i >= 0 {
				last = last[:i]
			}
			last = strings.TrimPrefix(last, "call:")
			switch {
			case strings.Contains(last, "partition"):
				roles["partition"] = true
			case strings.Contains(last, "database") || strings.Contains(last, "dbname") || last == "db" || strings.Contains(last, "dbid2name") || strings.Contains(last, "getdbnameforcollection"):
				roles["db"] = true
			case strings.Contains(last, "collection") || last == "name" || last == "s":
				roles["collection"] = true
			}
		}
		var ks []string
		for _, k := range []string{"partition", "collection", "db"} {
			if roles[k] {
				ks = append(ks, k)
			}
		}
		return strings.Join(ks, "+")
	}
	cnt := map[string]int{}
	for _, f := range w.RepoFuncs() {
		p := f.Pkg.Pkg.Path()
		if p != pkgReader && p != pkgWriter {
			continue
		}
		eachInstr(f, func(in ssa.Instruction) {
			c, ok := in.(*ssa.Call)
			if !ok {
				return
			}
			s := callSym(c.Common())
			if s.pkg != pkgUtil || keyFns[s.name] == nil {
				return
			}
			host := shortFn2(f)
			cnt[host+s.name]++
			cons := fmt.Sprintf("%s | %s#%d argument roles", host, s.name, cnt[host+s.name])
			want := keyFns[s.name]
			okAll := true
			var got []string
			for i, a := range c.Call.Args {
				ro := roleOf(a)
				got = append(got, ro)
				// the role wanted must be present and no earlier-position role may be the only one
				if ro == "empty" && want[i] == "db" {
					continue
				}
				if !strings.Contains(ro, want[i]) {
					okAll = false
				}
				// a pure role that belongs to another position is a swap
				for j, other := range want {
					if j != i && ro == other {
						okAll = false
					}
				}
			}
			r.Check(okAll, "C15-R4", cons, c.Pos(), "roles "+strings.Join(got, ", "), fmt.Sprintf("argument roles are (%s), the key function expects (%s): producer and consumer of the snapshot would build different keys", strings.Join(got, ", "), strings.Join(want, ", ")))
		})
	}
}

// loopCarried: does v flow (through phis / conversions / local variables) from a phi located at loop header h,
// i.e. from the previous iteration? Returns the offending phi.
func loopCarried(v ssa.Value, h *ssa.BasicBlock, fam *Family) ssa.Value {
	seen := map[ssa.Value]bool{}
	var walk func(v ssa.Value, d int) ssa.Value
	walk = func(v ssa.Value, d int) ssa.Value {
		if v == nil || seen[v] || d > 10 {
			return nil
		}
		seen[v] = true
		switch x := v.(type) {
		case *ssa.Phi:
			if x.Block() == h {
				// header phi: an edge from inside the loop means loop-carried
				for i, p := range h.Preds {
					if h.Dominates(p) && i < len(x.Edges) {
						return x
					}
				}
			}
			for _, e := range x.Edges {
				if r := walk(e, d+1); r != nil {
					return r
				}
			}
		case *ssa.ChangeType:
			return walk(x.X, d+1)
		case *ssa.Convert:
			return walk(x.X, d+1)
		case *ssa.Extract:
			return nil
		case *ssa.UnOp:
			if x.Op == token.MUL {
				if al, ok := fam.canon(x.X).(*ssa.Alloc); ok {
					// a captured/addressed local: loop-carried if it is declared outside the loop and some path of the
					// iteration reaches the load without a store in the loop
					if !h.Dominates(al.Block()) || al.Block() == h {
						dom := false
						for _, st := range fam.stores[al] {
							if st.Parent() == x.Parent() && h.Dominates(st.Block()) && instrDominates(st, x) {
								dom = true
							}
						}
						if !dom {
							return x
						}
					}
				}
			}
		}
		return nil
	}
	return walk(v, 0)
}

// ruleC15KeyInjective: C15-R5 (also the key vocabulary of C08). One obligation per key function.
func ruleC15KeyInjective(w *World, r *Report) {
	for _, name := range []string{"GetDBInfoKeys", "GetCollectionInfoKeys", "GetPartitionInfoKeys"} {
		f := w.Func(pkgUtil, "", name)
		cons := "util." + name + " | key composition"
		if f == nil {
			r.Undecided("C15-R5", cons, 0, "anchor not found")
			continue
		}
		nStr := 0
		for _, p := range f.Params {
			if isStringType(p.Type()) {
				nStr++
			}
		}
		if nStr < 2 {
			r.OK("C15-R5", cons, f.Pos(), "a single name component")
			continue
		}
		var comps []compKey
		for _, k := range allComposites(f) {
			if returnsValue(f, k.Value()) {
				comps = append(comps, k)
			}
		}
		if len(comps) == 0 {
			r.Undecided("C15-R5", cons, f.Pos(), "the function takes several names but no Sprintf / concatenation / strings.Join composing them reaches its results: the key composition is not understood")
			continue
		}
		bad := ""
		covered := 0
		for _, k := range comps {
			covered += len(k.Args)
			for _, i := range k.Ambig {
				bad = fmt.Sprintf("%s between component %d and %d the separator is %q", k.Format, i+1, i+2, k.Seps[i])
			}
		}
		if bad == "" && covered < nStr {
			r.Undecided("C15-R5", cons, f.Pos(), fmt.Sprintf("only %d of %d name components are seen in the composite", covered, nStr))
			continue
		}
		r.Check(bad == "", "C15-R5", cons, f.Pos(), "adjacent name components are separated by a character outside the name alphabet", "the key is ambiguous ("+bad+"): two different objects whose names join to the same string (database a + collection b_c, database a_b + collection c) share one entry of the dropped-object tables, so operations on the live one are skipped with the other's drop time")
	}
}

// ruleKeyComponentsVerbatim (C15-R11, shared with C08): every name given to a key constructor is part of the key as it
// is. A component that went through a trimming / cutting / case-folding / replacing function no longer identifies the
// object (strings.TrimRight(key, "_c") strips a character SET: "doc" and "do" give the same key).
func ruleKeyComponentsVerbatim(w *World, r *Report, rule string) {
	r.Rule(rule, "key components are used verbatim", "in util.GetDBInfoKeys / GetCollectionInfoKeys / GetPartitionInfoKeys — for C09: util.getMilvusClientResourceName, the key of the per-database client cache — (and what they call) no string that reaches the returned keys is the result of strings.Trim*/Cut*/Replace*/ToLower/ToUpper/Fields/Split/Title or a slice expression of a name: the key contains each name unmodified", 1)
	lossy := map[string]bool{"Trim": true, "TrimRight": true, "TrimLeft": true, "TrimSpace": true, "TrimFunc": true, "TrimPrefix": true, "TrimSuffix": true, "Cut": true, "CutPrefix": true, "CutSuffix": true,
		"Replace": true, "ReplaceAll": true, "ToLower": true, "ToUpper": true, "Title": true, "Fields": true, "Split": true, "SplitN": true, "Map": true}
	names := []string{"GetDBInfoKeys", "GetCollectionInfoKeys", "GetPartitionInfoKeys"}
	if strings.HasPrefix(rule, "C09") {
		// the key of the per-database client cache: address + database
		names = []string{"getMilvusClientResourceName"}
	}
	for _, name := range names {
		f := w.Func(pkgUtil, "", name)
		cons := "util." + name + " | components verbatim"
		if f == nil {
			r.Undecided(rule, cons, 0, "anchor not found")
			continue
		}
		bad := ""
		seenFns := map[*ssa.Function]bool{}
		var visit func(fn *ssa.Function, d int)
		visit = func(fn *ssa.Function, d int) {
			if seenFns[fn] || d > 3 {
				return
			}
			seenFns[fn] = true
			eachInstr(fn, func(in ssa.Instruction) {
				switch x := in.(type) {
				case *ssa.Call:
					s := callSym(x.Common())
					if s.pkg == "strings" && lossy[s.name] {
						bad = "strings." + s.name + " at " + w.Prog.Fset.Position(x.Pos()).String()
					}
					if cal := x.Common().StaticCallee(); cal != nil && cal.Pkg != nil && cal.Pkg.Pkg.Path() == pkgUtil && len(cal.Blocks) > 0 {
						visit(cal, d+1)
					}
				case *ssa.Slice:
					if isStringType(x.X.Type()) {
						bad = "a slice expression of a string at " + w.Prog.Fset.Position(x.Pos()).String()
					}
				}
			})
		}
		visit(f, 0)
		r.Check(bad == "", rule, cons, f.Pos(), "names reach the key unmodified", "a component of the key goes through "+bad+": different names can give the same key (a cut-set trim removes every trailing character of the set, not a suffix), so the drop time recorded for one object is found for another")
	}
}

// c15TombstoneExact (C15-R12): a catalog value is a tombstone when it IS the tombstone marker. A suffix / prefix /
// substring test takes a live record that merely ends in those bytes for a dropped object.
func c15TombstoneExact(w *World, r *Report) {
	r.Rule("C15-R12", "a tombstone is the exact marker", "util.IsTombstone compares the whole value with SuffixSnapshotTombstone (bytes.Equal / ==), not with HasSuffix / HasPrefix / Contains / Index", 1)
	f := w.Func(pkgUtil, "", "IsTombstone")
	if f == nil {
		r.Undecided("C15-R12", "util.IsTombstone", 0, "anchor not found")
		return
	}
	bad, eq := "", false
	eachInstr(f, func(in ssa.Instruction) {
		c, ok := in.(*ssa.Call)
		if !ok {
			return
		}
		s := callSym(c.Common())
		if s.pkg != "bytes" && s.pkg != "strings" {
			return
		}
		switch s.name {
		case "Equal", "EqualFold", "Compare":
			eq = true
		case "HasSuffix", "HasPrefix", "Contains", "Index", "LastIndex", "ContainsAny":
			bad = s.pkg + "." + s.name
		}
	})
	eachInstr(f, func(in ssa.Instruction) {
		if bo, ok := in.(*ssa.BinOp); ok && bo.Op == token.EQL && isStringType(bo.X.Type()) {
			eq = true
		}
	})
	r.Check(bad == "" && eq, "C15-R12", "util.IsTombstone | whole-value comparison", f.Pos(), "bytes.Equal with the marker", "IsTombstone decides with "+bad+" (or without an equality test): a live database / collection record whose serialised value happens to end in (contain) the marker bytes is treated as dropped, gets a drop horizon in the snapshot and its operations are skipped")
}

// c15CatalogTables (C15-R13, shared with C13): the id->database table is filled from the catalog KEY of a collection
// record (…/<db id>/<collection id>): records written before the database feature carry no db_id in their value, the key
// always does. And getDatabases reads the catalog on every call: a remembered listing makes a database created since
// look dropped.
func c15CatalogTables(w *World, r *Report, rule string) {
	r.Rule(rule, "catalog tables are filled from the authoritative source, read fresh", "the value stored into EtcdOp.collectionID2DBID can derive from getDatabaseIDFromCollectionKey(key) (or from the listed database whose prefix the key was found under) at every store; every successful return of getDatabases is dominated by the etcd read", 2)
	n := 0
	for _, fn := range w.RepoFuncs() {
		if fn.Pkg == nil || fn.Pkg.Pkg.Path() != pkgReader {
			continue
		}
		eachInstr(fn, func(in ssa.Instruction) {
			c, ok := in.(*ssa.Call)
			if !ok || callSym(c.Common()).name != "Store" {
				return
			}
			rv := callRecv(c.Common())
			if rv == nil || !strings.HasSuffix(w.accessPath(rv), ".collectionID2DBID") {
				return
			}
			n++
			args := callArgs(c.Common())
			fromKey := false
			if len(args) == 2 {
				for _, x := range backSlice(args[1], SliceOpts{MaxDepth: 8}) {
					if cc, isC := x.(*ssa.Call); isC && callSym(cc.Common()).name == "getDatabaseIDFromCollectionKey" {
						fromKey = true
					}
					// the id of the listed database under whose prefix the record's key was found
					if strings.HasSuffix(w.accessPath(x), ".ID") && strings.Contains(x.Type().String(), "int64") {
						if fa, isFA := x.(*ssa.FieldAddr); isFA && bareTypeName(fa.X.Type()) == "DatabaseInfo" {
							fromKey = true
						}
						if fl, isF := x.(*ssa.Field); isF && bareTypeName(fl.X.Type()) == "DatabaseInfo" {
							fromKey = true
						}
					}
				}
			}
			r.Check(fromKey, rule, fmt.Sprintf("%s | collectionID2DBID.Store #%d", shortFn2(fn), n), c.Pos(), "the database id comes from the record's key", "the database id stored for a collection does not come from the catalog key on any path: a record without db_id in its value (written before the database feature) is mapped to no database, the snapshot takes it for 'database dropped' and gives its dropped collections / partitions no entry")
		})
	}
	if gd := w.Func(pkgReader, "EtcdOp", "getDatabases"); gd != nil {
		var reads []ssa.Instruction
		eachInstr(gd, func(in ssa.Instruction) {
			if c, ok := in.(*ssa.Call); ok {
				if nm := callSym(c.Common()).name; nm == "EtcdGetWithContext" || (c.Common().IsInvoke() && c.Common().Method.Name() == "Get") {
					reads = append(reads, c)
				}
			}
		})
		k := 0
		eachInstr(gd, func(in ssa.Instruction) {
			ret, ok := in.(*ssa.Return)
			if !ok || len(ret.Results) != 2 || !isNilConst(returnedValue(ret, 1)) {
				return
			}
			k++
			dom := false
			for _, rd := range reads {
				if instrDominates(rd, ret) {
					dom = true
				}
			}
			r.Check(dom, rule, fmt.Sprintf("(*EtcdOp).getDatabases | successful return #%d follows the catalog read", k), ret.Pos(), "read on every call", "getDatabases can answer from a remembered listing: a collection created in a database younger than the remembered listing resolves to 'database dropped' and its event is lost for good")
		})
		if k == 0 {
			r.Undecided(rule, "(*EtcdOp).getDatabases", gd.Pos(), "no successful return found")
		}
	} else {
		r.Undecided(rule, "(*EtcdOp).getDatabases", 0, "anchor not found")
	}
	if n == 0 {
		r.Undecided(rule, "collectionID2DBID", 0, "no store found")
	}
}
