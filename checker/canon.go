package main

// Canonicalisation of the tree under analysis against the symbol table the rules were written for.
//
// The rules name their anchors by symbol (package, receiver, function). Two very common behaviour-preserving edits
// change symbols without changing behaviour: extracting a block of an anchored function into a NEW helper, and
// RENAMING an unexported function. Both are undone in memory before the analysis, through packages.Config.Overlay
// (nothing is written to disk):
//
//   - a function declaration whose (package, receiver, name) is not in the baseline symbol table and whose
//     receiver+signature equal those of exactly one baseline symbol that has disappeared from the same package is a
//     rename: its identifier is rewritten back to the baseline name;
//   - every other new function with a body is a helper unknown to the rules: each static same-package call of it is
//     replaced by its body with golang.org/x/tools' own source-level inliner (internal/refactor/inline of v0.29.0,
//     vendored under xt/), innermost helpers first.
//
// The inliner is semantics-preserving by construction (it falls back to an immediately applied function literal when a
// call cannot be reduced), so a rule that holds on the canonical form holds on the tree, and a violation found on the
// canonical form is a violation of the tree. When canonicalisation fails (type errors after rewriting, inliner error)
// the original source is analysed and the failure is listed in the evidence.

import (
	_ "embed"
	"bytes"
	"fmt"
	"go/ast"
	"go/token"
	"go/types"
	"os"
	"sort"
	"strings"

	"golang.org/x/tools/go/packages"
	"golang.org/x/tools/go/types/typeutil"

	"verif/checker/xt/refactor/inline"
)

//go:embed baseline_funcs.txt
var baselineFuncsTxt string

//go:embed baseline_fields.txt
var baselineFieldsTxt string

type fieldInfo struct {
	pkg, typ string
	idx      int
	name, ty string
}

func currentFields(pkgs []*packages.Package) ([]fieldInfo, map[string]*types.Var) {
	var out []fieldInfo
	vars := map[string]*types.Var{}
	for _, p := range pkgs {
		if !canonScope(p.PkgPath) || p.Types == nil {
			continue
		}
		sc := p.Types.Scope()
		for _, n := range sc.Names() {
			tn, ok := sc.Lookup(n).(*types.TypeName)
			if !ok {
				continue
			}
			st, ok := tn.Type().Underlying().(*types.Struct)
			if !ok {
				continue
			}
			for i := 0; i < st.NumFields(); i++ {
				f := st.Field(i)
				if f.Embedded() {
					continue
				}
				fi := fieldInfo{p.PkgPath, n, i, f.Name(), types.TypeString(f.Type(), func(q *types.Package) string { return q.Path() })}
				out = append(out, fi)
				vars[fmt.Sprintf("%s\t%s\t%s", fi.pkg, fi.typ, fi.name)] = f
			}
		}
	}
	return out, vars
}

type CanonLog struct {
	NewFuncs []string `json:"new_functions,omitempty"`
	Renamed  []string `json:"renames_undone,omitempty"`
	Inlined  []string `json:"helpers_inlined,omitempty"`
	Failed   []string `json:"failed,omitempty"`
	Steps    int      `json:"reload_steps,omitempty"`
	Lifted   []string `json:"closures_lifted,omitempty"`
}

type declInfo struct {
	pkg, recv, name, sig string
}

func (d declInfo) key() string { return d.pkg + "\t" + d.recv + "\t" + d.name }

func baselineDecls() map[string]declInfo {
	out := map[string]declInfo{}
	for _, l := range strings.Split(baselineFuncsTxt, "\n") {
		f := strings.Split(l, "\t")
		if len(f) != 4 {
			continue
		}
		d := declInfo{f[0], f[1], f[2], f[3]}
		out[d.key()] = d
	}
	return out
}

func sigString(sig *types.Signature) string {
	s := types.NewSignatureType(nil, nil, nil, sig.Params(), sig.Results(), sig.Variadic())
	return types.TypeString(s, func(p *types.Package) string { return p.Path() })
}

func declOf(p *packages.Package, fd *ast.FuncDecl) (declInfo, *types.Func) {
	obj, _ := p.TypesInfo.Defs[fd.Name].(*types.Func)
	if obj == nil {
		return declInfo{}, nil
	}
	d := declInfo{pkg: p.PkgPath, name: fd.Name.Name}
	sig := obj.Type().(*types.Signature)
	if sig.Recv() != nil {
		d.recv = bareTypeName(sig.Recv().Type())
	}
	d.sig = sigString(sig)
	return d, obj
}

func canonScope(pkgPath string) bool {
	if !strings.HasPrefix(pkgPath, "github.com/zilliztech/milvus-cdc/") {
		return false
	}
	return !strings.HasSuffix(pkgPath, "/mocks") && !strings.Contains(pkgPath, "/tool") && !strings.HasSuffix(pkgPath, "/pb")
}

// currentDecls lists the function declarations of the repository packages.
func currentDecls(pkgs []*packages.Package) []declInfo {
	var out []declInfo
	for _, p := range pkgs {
		if !canonScope(p.PkgPath) {
			continue
		}
		for _, f := range p.Syntax {
			for _, d := range f.Decls {
				if fd, ok := d.(*ast.FuncDecl); ok {
					if di, obj := declOf(p, fd); obj != nil {
						out = append(out, di)
					}
				}
			}
		}
	}
	sort.Slice(out, func(i, j int) bool { return out[i].key() < out[j].key() })
	return out
}

func writeBaselineFields(pkgs []*packages.Package, path string) error {
	var b bytes.Buffer
	fs, _ := currentFields(pkgs)
	for _, f := range fs {
		fmt.Fprintf(&b, "%s\t%s\t%d\t%s\t%s\n", f.pkg, f.typ, f.idx, f.name, f.ty)
	}
	return os.WriteFile(path, b.Bytes(), 0o644)
}

func writeBaseline(pkgs []*packages.Package, path string) error {
	var b bytes.Buffer
	for _, d := range currentDecls(pkgs) {
		fmt.Fprintf(&b, "%s\t%s\t%s\t%s\n", d.pkg, d.recv, d.name, d.sig)
	}
	return os.WriteFile(path, b.Bytes(), 0o644)
}

// canonicalize returns the overlay that undoes renames and inlines new helpers (nil when the tree has none).
func canonicalize(cfg packages.Config, pkgs []*packages.Package) (map[string][]byte, *CanonLog) {
	base := baselineDecls()
	lg := &CanonLog{}
	if len(base) == 0 {
		lg.Failed = append(lg.Failed, "baseline symbol table is empty")
		return nil, lg
	}
	cur := map[string]declInfo{}
	for _, d := range currentDecls(pkgs) {
		cur[d.key()] = d
	}
	newBy := map[string][]declInfo{} // per package
	missBy := map[string][]declInfo{}
	for k, d := range cur {
		if _, ok := base[k]; !ok {
			newBy[d.pkg] = append(newBy[d.pkg], d)
			lg.NewFuncs = append(lg.NewFuncs, strings.ReplaceAll(k, "\t", " "))
		}
	}
	sort.Strings(lg.NewFuncs)
	// ---- renamed struct fields: same struct, same type, a baseline name gone and an unknown name in its place
	fieldObjs := map[types.Object]string{}
	{
		type key struct{ pkg, typ string }
		baseF := map[key][]fieldInfo{}
		for _, l := range strings.Split(baselineFieldsTxt, "\n") {
			f := strings.Split(l, "\t")
			if len(f) != 5 {
				continue
			}
			var idx int
			fmt.Sscanf(f[2], "%d", &idx)
			k := key{f[0], f[1]}
			baseF[k] = append(baseF[k], fieldInfo{f[0], f[1], idx, f[3], f[4]})
		}
		curFs, vars := currentFields(pkgs)
		curF := map[key][]fieldInfo{}
		for _, f := range curFs {
			k := key{f.pkg, f.typ}
			curF[k] = append(curF[k], f)
		}
		for k, bs := range baseF {
			cs := curF[k]
			if len(cs) == 0 {
				continue
			}
			has := func(fs []fieldInfo, name string) bool {
				for _, f := range fs {
					if f.name == name {
						return true
					}
				}
				return false
			}
			var gone, fresh []fieldInfo
			for _, b := range bs {
				if !has(cs, b.name) {
					gone = append(gone, b)
				}
			}
			for _, c := range cs {
				if !has(bs, c.name) {
					fresh = append(fresh, c)
				}
			}
			for _, g := range gone {
				var cands []fieldInfo
				for _, f := range fresh {
					if f.ty == g.ty {
						cands = append(cands, f)
					}
				}
				// unique by type; or, among several of one type, the one at the same position
				if len(cands) > 1 {
					var same []fieldInfo
					for _, f := range cands {
						if f.idx == g.idx {
							same = append(same, f)
						}
					}
					cands = same
				}
				claims := 0
				for _, g2 := range gone {
					if g2.ty == g.ty {
						claims++
					}
				}
				if len(cands) == 1 && (claims == 1 || cands[0].idx == g.idx) {
					if v := vars[fmt.Sprintf("%s\t%s\t%s", k.pkg, k.typ, cands[0].name)]; v != nil {
						fieldObjs[v] = g.name
						lg.Renamed = append(lg.Renamed, fmt.Sprintf("%s: field %s.%s -> %s", shortPkg(k.pkg), k.typ, cands[0].name, g.name))
					}
				}
			}
		}
	}
	if len(newBy) == 0 && len(fieldObjs) == 0 {
		return nil, lg
	}
	for k, d := range base {
		if _, ok := cur[k]; !ok && canonScope(d.pkg) {
			missBy[d.pkg] = append(missBy[d.pkg], d)
		}
	}
	overlay := map[string][]byte{}
	for k, v := range cfg.Overlay {
		overlay[k] = v
	}
	// ---- renames
	renames := map[string]string{} // new key -> old name
	for pkg, ns := range newBy {
		for _, n := range ns {
			var cands []declInfo
			for _, m := range missBy[pkg] {
				if m.recv == n.recv && m.sig == n.sig {
					cands = append(cands, m)
				}
			}
			if len(cands) != 1 {
				continue
			}
			// the baseline symbol must be claimed by exactly one new function
			claim := 0
			for _, n2 := range ns {
				if n2.recv == cands[0].recv && n2.sig == cands[0].sig {
					claim++
				}
			}
			if claim == 1 {
				renames[n.key()] = cands[0].name
			}
		}
	}
	objs := map[types.Object]string{}
	for k, v := range fieldObjs {
		objs[k] = v
	}
	for _, p := range pkgs {
		if len(newBy[p.PkgPath]) == 0 {
			continue
		}
		for _, f := range p.Syntax {
			for _, d := range f.Decls {
				if fd, ok := d.(*ast.FuncDecl); ok {
					if di, obj := declOf(p, fd); obj != nil {
						if old, ok := renames[di.key()]; ok {
							objs[obj] = old
							lg.Renamed = append(lg.Renamed, fmt.Sprintf("%s: %s -> %s", shortPkg(di.pkg), declName(di), old))
						}
					}
				}
			}
		}
	}
	if len(objs) > 0 {
		// identifiers in every repository package (an exported function or a field is used across packages)
		for _, p := range pkgs {
			if !strings.HasPrefix(p.PkgPath, "github.com/zilliztech/milvus-cdc/") || p.TypesInfo == nil {
				continue
			}
			for _, f := range p.Syntax {
				type edit struct {
					off, end int
					txt      string
				}
				var edits []edit
				tf := p.Fset.File(f.Pos())
				ast.Inspect(f, func(n ast.Node) bool {
					id, ok := n.(*ast.Ident)
					if !ok {
						return true
					}
					var o types.Object
					if d := p.TypesInfo.Defs[id]; d != nil {
						o = d
					} else if u := p.TypesInfo.Uses[id]; u != nil {
						o = u
					}
					switch x := o.(type) {
					case *types.Func:
						o = x.Origin()
					case *types.Var:
						o = x.Origin()
					}
					if old, ok := objs[o]; ok {
						edits = append(edits, edit{tf.Offset(id.Pos()), tf.Offset(id.End()), old})
					}
					return true
				})
				if len(edits) == 0 {
					continue
				}
				name := tf.Name()
				src, ok := overlay[name]
				if !ok {
					var err error
					src, err = os.ReadFile(name)
					if err != nil {
						lg.Failed = append(lg.Failed, "read "+name+": "+err.Error())
						continue
					}
				}
				sort.Slice(edits, func(i, j int) bool { return edits[i].off > edits[j].off })
				out := append([]byte{}, src...)
				for _, e := range edits {
					out = append(out[:e.off], append([]byte(e.txt), out[e.end:]...)...)
				}
				overlay[name] = out
			}
		}
		sort.Strings(lg.Renamed)
	}
	// ---- inline the remaining new helpers, innermost first
	isNew := func(d declInfo) bool {
		if _, ok := base[d.key()]; ok {
			return false
		}
		if _, ok := renames[d.key()]; ok {
			return false
		}
		return true
	}
	var patterns []string
	for pkg, ns := range newBy {
		n := 0
		for _, d := range ns {
			if isNew(d) {
				n++
			}
		}
		if n > 0 {
			patterns = append(patterns, pkg)
		}
	}
	sort.Strings(patterns)
	if len(patterns) == 0 {
		if len(lg.Renamed) == 0 {
			return nil, lg
		}
		return overlay, lg
	}
	skipped := map[string]bool{}
	removed := map[string]bool{}
	var lastRemoval map[string][]byte
	noRemove := false
	var lastFlat struct {
		file    string
		content []byte
	}
	noFlatten := false
	for step := 0; step < 60; step++ {
		c2 := cfg
		c2.Mode = packages.LoadSyntax
		c2.Overlay = overlay
		ps, err := packages.Load(&c2, patterns...)
		lg.Steps++
		if err != nil {
			lg.Failed = append(lg.Failed, "reload: "+err.Error())
			break
		}
		bad := false
		for _, p := range ps {
			if len(p.Errors) > 0 {
				lg.Failed = append(lg.Failed, fmt.Sprintf("type errors after rewriting %s: %v", shortPkg(p.PkgPath), p.Errors[0]))
				bad = true
			}
		}
		if bad && lastRemoval != nil {
			// removing a dead helper broke the build (e.g. an import became unused): keep it
			lg.Failed = lg.Failed[:len(lg.Failed)-1]
			for k, v := range lastRemoval {
				overlay[k] = v
			}
			lastRemoval = nil
			noRemove = true
			continue
		}
		lastRemoval = nil
		if bad && lastFlat.file != "" {
			// the flattened form was rejected: keep the literal the inliner produced
			lg.Failed = lg.Failed[:len(lg.Failed)-1]
			lg.Failed = append(lg.Failed, "flattening rejected by the type checker in "+shortFile(lastFlat.file)+"; the literal is kept")
			overlay[lastFlat.file] = lastFlat.content
			lastFlat.file = ""
			noFlatten = true
			continue
		}
		if bad {
			// give up: analyse the source as it is
			return nil, lg
		}
		lastFlat.file = ""
		done := true
		for _, p := range ps {
			// new function objects of this package
			newObj := map[*types.Func]*ast.FuncDecl{}
			fileOf := map[*ast.FuncDecl]*ast.File{}
			for _, f := range p.Syntax {
				for _, d := range f.Decls {
					if fd, ok := d.(*ast.FuncDecl); ok && fd.Body != nil {
						if di, obj := declOf(p, fd); obj != nil && isNew(di) && fd.Type.TypeParams == nil {
							newObj[obj] = fd
							fileOf[fd] = f
						}
					}
				}
			}
			if len(newObj) == 0 {
				continue
			}
			callsNew := func(fd *ast.FuncDecl) bool {
				found := false
				ast.Inspect(fd.Body, func(n ast.Node) bool {
					if c, ok := n.(*ast.CallExpr); ok {
						if fo, ok := typeutil.Callee(p.TypesInfo, c).(*types.Func); ok {
							if _, isN := newObj[fo.Origin()]; isN {
								found = true
							}
						}
					}
					return true
				})
				return found
			}
			// pick one call site
			var theCall *ast.CallExpr
			var theFile *ast.File
			var theCallee *ast.FuncDecl
			var calleeObj *types.Func
			for _, f := range p.Syntax {
				if theCall != nil {
					break
				}
				for _, d := range f.Decls {
					fd, ok := d.(*ast.FuncDecl)
					if !ok || fd.Body == nil || theCall != nil {
						continue
					}
					ast.Inspect(fd.Body, func(n ast.Node) bool {
						if theCall != nil {
							return false
						}
						c, ok := n.(*ast.CallExpr)
						if !ok {
							return true
						}
						fo, ok := typeutil.Callee(p.TypesInfo, c).(*types.Func)
						if !ok {
							return true
						}
						cd, isN := newObj[fo.Origin()]
						if !isN || cd == fd || callsNew(cd) {
							return true
						}
						id := fmt.Sprintf("%s|%s|%d", p.PkgPath, fo.FullName(), p.Fset.Position(c.Pos()).Offset)
						if skipped[id] {
							return true
						}
						theCall, theFile, theCallee, calleeObj = c, f, cd, fo
						return false
					})
				}
			}
			if theCall == nil {
				// helpers that are no longer referenced anywhere are dead code now: drop their declarations, so that
				// who-may-write rules do not see a second copy of the statements that were inlined
				used := map[types.Object]bool{}
				for _, o := range p.TypesInfo.Uses {
					if fo, ok := o.(*types.Func); ok {
						used[fo.Origin()] = true
					}
				}
				type cut struct{ from, to int }
				cuts := map[string][]cut{}
				for obj, fd := range newObj {
					if used[obj] || removed[obj.FullName()] || noRemove {
						continue
					}
					tf := p.Fset.File(fd.Pos())
					from := fd.Pos()
					if fd.Doc != nil {
						from = fd.Doc.Pos()
					}
					cuts[tf.Name()] = append(cuts[tf.Name()], cut{tf.Offset(from), tf.Offset(fd.End())})
					removed[obj.FullName()] = true
					lg.Inlined = append(lg.Inlined, "declaration of "+obj.Name()+" removed (no remaining reference)")
				}
				if len(cuts) > 0 {
					lastRemoval = map[string][]byte{}
				}
				for name, cs := range cuts {
					src, ok := overlay[name]
					if !ok {
						src, _ = os.ReadFile(name)
					}
					lastRemoval[name] = src
					sort.Slice(cs, func(i, j int) bool { return cs[i].from > cs[j].from })
					out := append([]byte{}, src...)
					for _, c := range cs {
						out = append(out[:c.from], out[c.to:]...)
					}
					overlay[name] = out
					done = false
				}
				if len(cuts) > 0 {
					break
				}
				continue
			}
			done = false
			id := fmt.Sprintf("%s|%s|%d", p.PkgPath, calleeObj.FullName(), p.Fset.Position(theCall.Pos()).Offset)
			content := func(f *ast.File) []byte {
				name := p.Fset.File(f.Pos()).Name()
				if b, ok := overlay[name]; ok {
					return b
				}
				b, _ := os.ReadFile(name)
				return b
			}
			logf := func(string, ...any) {}
			callee, err := inline.AnalyzeCallee(logf, p.Fset, p.Types, p.TypesInfo, theCallee, content(fileOf[theCallee]))
			if err != nil {
				skipped[id] = true
				lg.Failed = append(lg.Failed, fmt.Sprintf("cannot analyse helper %s: %v", calleeObj.Name(), err))
				break
			}
			res, err := inline.Inline(&inline.Caller{Fset: p.Fset, Types: p.Types, Info: p.TypesInfo, File: theFile, Call: theCall, Content: content(theFile)}, callee, &inline.Options{Logf: logf})
			if err != nil {
				skipped[id] = true
				lg.Failed = append(lg.Failed, fmt.Sprintf("cannot inline %s at %s: %v", calleeObj.Name(), p.Fset.Position(theCall.Pos()), err))
				break
			}
			fname := p.Fset.File(theFile.Pos()).Name()
			newContent := res.Content
			flat := 0
			if res.Literalized && !noFlatten {
				if fc, k, ferr := flattenIIFEs(res.Content, iifeTexts(content(theFile))); ferr == nil && k > 0 {
					lastFlat.file, lastFlat.content = fname, res.Content
					newContent, flat = fc, k
				}
			}
			overlay[fname] = newContent
			pos := p.Fset.Position(theCall.Pos())
			lg.Inlined = append(lg.Inlined, fmt.Sprintf("%s into %s:%d (literal=%v, flattened=%d)", calleeObj.Name(), shortFile(pos.Filename), pos.Line, res.Literalized, flat))
			break // one edit per reload
		}
		if done {
			break
		}
	}
	if len(lg.Renamed) == 0 && len(lg.Inlined) == 0 {
		return nil, lg
	}
	return overlay, lg
}

func shortPkg(p string) string { return strings.TrimPrefix(p, "github.com/zilliztech/milvus-cdc/") }
func shortFile(f string) string {
	if i := strings.Index(f, "/core/"); i >= 0 {
		return f[i+1:]
	}
	if i := strings.Index(f, "/server/"); i >= 0 {
		return f[i+1:]
	}
	return f
}
func declName(d declInfo) string {
	if d.recv != "" {
		return "(" + d.recv + ")." + d.name
	}
	return d.name
}

var _ = token.NoPos
