package main

import (
	"fmt"
	"go/token"
	"go/types"
	"sort"
	"strings"

	"golang.org/x/tools/go/ssa"
)

func init() {
	register("C09", &propDef{run: runC09,
		explain: "Structural necessary conditions of 'every downstream operation targets the mapped database and collection', decided over core/writer and core/reader/target_client.go: (R1) at every api.DataHandler call site of ChannelWriter, the routing database (ReplicateParam.Database, for the methods whose Milvus implementation routes by it) and every database/collection name field of the request derive, on every path, from the results of mapDBAndCollectionName; (R2) the arguments of the bookkeeping lookups (WaitObjReady*, util.Get*InfoKeys) never derive from a mapping result, also through WaitObjReadyForAPIEvent's reads of the event; (R3) in mapDBAndCollectionName only an exact (db, collection) match may stop the unordered scan; (R4) the Milvus and Kafka handlers route the same methods by database; (R5) every supported DML type gets both mapped names in HandleReplicateMessage; (R6) TargetClient looks collections up under mapped names; (R7) mapping calls get (database, collection) in that order.",
		notDec:  []string{"the contents of the mapping table and its semantics beyond precedence", "names embedded in serialized payloads", "privilege entities (Entity.DbName/ObjectName) are reported but their mapping semantics are a product decision"},
	})
}

var mapSymW = sym{pkgWriter, "ChannelWriter", "mapDBAndCollectionName"}
var mapSymT = sym{pkgReader, "TargetClient", "mapDBAndCollectionName"}

// nameRole classifies a struct field as carrying a database (0) or collection (1) name.
func nameRole(path []string, fv *types.Var) int {
	n := fv.Name()
	isStr := false
	switch t := fv.Type().Underlying().(type) {
	case *types.Basic:
		isStr = t.Kind() == types.String
	case *types.Slice:
		if b, ok := t.Elem().Underlying().(*types.Basic); ok && b.Kind() == types.String {
			isStr = true
		}
	}
	if !isStr {
		return -1
	}
	switch n {
	case "DbName", "Database":
		return 0
	case "CollectionName", "CollectionNames":
		return 1
	}
	return -1
}

func runC09(w *World, r *Report) {
	// the connection a call is routed to is looked up under (address, database) exactly
	defer ruleKeyComponentsVerbatim(w, r, "C09-R12")
	r.Rule("C09-R1", "mapped names at every downstream call", "for each c.dataHandler.M(param): ReplicateParam.Database (when M routes by it) and every DbName/CollectionName(s)/Name field of the request derive on every path from mapDBAndCollectionName results (index 0 for databases, 1 for collections)", 40)
	r.Rule("C09-R2", "bookkeeping keeps source names", "no argument of WaitObjReady / util.Get*InfoKeys, and no event field read by WaitObjReadyForAPIEvent, derives from a mapping result at the call", 80)
	r.Rule("C09-R3", "mapping precedence independent of iteration order", "in the Range callback of mapDBAndCollectionName a `return false` is reachable only when sourceCollection == collection held (exact match)", 2)
	r.Rule("C09-R4", "handler agreement", "MilvusDataHandler and KafkaDataHandler pass param.Database to their op function for the same set of methods", 25)
	r.Rule("C09-R5", "DML names mapped per supported type", "HandleReplicateMessage stores mapped DbName and CollectionName for every message type admitted by reader.isSupportedMsgType", 10)
	r.Rule("C09-R6", "reader-side lookups use mapped names", "TargetClient.GetCollectionInfo/GetPartitionInfo give milvusOp and Describe/ShowPartitions the mapping results", 4)
	r.Rule("C09-R7", "mapping argument roles", "every call mapDBAndCollectionName(a, b): a is read from a database-name getter/field or parameter, b from a collection-name one (or is empty)", 25)

	// ---------- R4 + routes table
	routes := map[string]bool{}
	handlerMethods := func(tn, opName string) map[string]bool {
		out := map[string]bool{}
		named := w.Named(pkgWriter, tn)
		if named == nil {
			return nil
		}
		for i := 0; i < named.NumMethods(); i++ {
			m := named.Method(i)
			fn := w.Prog.FuncValue(m)
			if fn == nil || fn.Blocks == nil || !m.Exported() {
				continue
			}
			if fn.Signature.Params().Len() != 2 {
				continue
			}
			pname := fn.Params[2].Name()
			found, routed := false, false
			eachInstrDeep(fn, func(_ *ssa.Function, in ssa.Instruction) {
				ci, ok := in.(ssa.CallInstruction)
				if !ok {
					return
				}
				s := callSym(ci.Common())
				if s.recv != tn || s.name != opName {
					return
				}
				found = true
				db := callArgs(ci.Common())[1]
				ap := w.accessPath(db)
				if strings.HasPrefix(ap, "param:"+pname+".") && strings.HasSuffix(ap, ".Database") {
					routed = true
				}
			})
			if found {
				out[m.Name()] = routed
			}
		}
		return out
	}
	mil := handlerMethods("MilvusDataHandler", "milvusOp")
	kaf := handlerMethods("KafkaDataHandler", "KafkaOp")
	if len(mil) == 0 || len(kaf) == 0 {
		r.Undecided("C09-R4", "MilvusDataHandler/KafkaDataHandler", 0, "handler methods not found")
	}
	for _, m := range sortedKeys(mil) {
		routes[m] = mil[m]
		k, ok := kaf[m]
		c := "DataHandler." + m + " | route by param.Database"
		if !ok {
			r.Info("C09-R4", c, 0, "no Kafka counterpart calling KafkaOp")
			continue
		}
		r.Check(k == mil[m], "C09-R4", c, 0, fmt.Sprintf("both handlers agree (routes=%v)", k), fmt.Sprintf("MilvusDataHandler routes=%v but KafkaDataHandler routes=%v", mil[m], k))
	}

	// ---------- R8: the op helpers connect with exactly the database they were given
	r.Rule("C09-R8", "the client is obtained for the requested database only", "in MilvusDataHandler.milvusOp and TargetClient.milvusOp every GetMilvusClient call receives the function's own database parameter", 2)
	for _, spec := range []struct{ pkg, recv string }{{pkgWriter, "MilvusDataHandler"}, {pkgReader, "TargetClient"}} {
		fn := w.Func(spec.pkg, spec.recv, "milvusOp")
		cons := fmt.Sprintf("(*%s).milvusOp | client database", spec.recv)
		if fn == nil {
			r.Undecided("C09-R8", cons, 0, "anchor not found")
			continue
		}
		dbParam := fn.Params[2]
		n, good := 0, true
		eachInstrDeep(fn, func(g *ssa.Function, in ssa.Instruction) {
			c, ok := in.(*ssa.Call)
			if !ok || callSym(c.Common()).name != "GetMilvusClient" {
				return
			}
			n++
			a := callArgs(c.Common())
			fam := familyOf(g)
			if len(a) < 4 || !(a[3] == ssa.Value(dbParam) || fam.canon(a[3]) == ssa.Value(dbParam) || baseObject(fam, a[3]) == ssa.Value(dbParam)) {
				good = false
			}
		})
		r.Check(good && n > 0, "C09-R8", cons, fn.Pos(), fmt.Sprintf("%d GetMilvusClient call(s), all for the requested database", n), "a client for a different database (e.g. the default one) can be used for this operation: an object of a non-default database is operated on in another database")
	}

	// ---------- enumerate ChannelWriter functions
	var cwFuncs []*ssa.Function
	for _, fn := range w.RepoFuncs() {
		root := rootFunc(fn)
		if s := fnSym(root); s.pkg == pkgWriter && s.recv == "ChannelWriter" {
			cwFuncs = append(cwFuncs, fn)
		}
	}

	classifyMapped := func(idx int) func(v ssa.Value) leafVerdict {
		return func(v ssa.Value) leafVerdict {
			if extractOf(v, mapSymW, idx) {
				return leafGood
			}
			if e, ok := v.(*ssa.Extract); ok {
				if c, ok := e.Tuple.(*ssa.Call); ok && callSym(c.Common()) == mapSymW {
					return leafBad // wrong result index
				}
			}
			return leafDescend
		}
	}

	dhIface := w.Named(pkgAPI, "DataHandler")
	nSites := 0
	for _, fn := range cwFuncs {
		fam := familyOf(fn)
		eachInstr(fn, func(in ssa.Instruction) {
			ci, ok := in.(ssa.CallInstruction)
			if !ok || !ci.Common().IsInvoke() {
				return
			}
			cc := ci.Common()
			if dhIface == nil || !types.Identical(cc.Value.Type(), dhIface) {
				return
			}
			m := cc.Method.Name()
			if len(cc.Args) != 2 {
				return
			}
			nSites++
			host := rootFunc(fn)
			site := fmt.Sprintf("%s | dataHandler.%s", shortFn(host), m)
			param := cc.Args[1]
			pt := param.Type()
			objPath := w.accessPath(param)
			// every name-role field in the param type
			structFieldPaths(pt, 2, func(path []string, fv *types.Var) {
				role := nameRole(path, fv)
				// Describe*Param.Name: database or collection by param kind
				if role < 0 && fv.Name() == "Name" && len(path) == 1 {
					switch bareTypeName(pt) {
					case "DescribeDatabaseParam":
						role = 0
					case "DescribeCollectionParam":
						role = 1
					}
				}
				if role < 0 {
					return
				}
				// skip proto internals / deep paths through Base etc.
				if len(path) > 2 {
					return
				}
				if len(path) == 2 && path[0] != "ReplicateParam" && !fieldIsEmbedded(pt, path[0]) && path[0] != "Schema" {
					return
				}
				isRouting := path[len(path)-1] == "Database" && path[0] == "ReplicateParam"
				if isRouting {
					if m == "ReplicateMessage" {
						return
					}
					if rt, known := routes[m]; known && !rt {
						return // handler ignores param.Database for this method
					}
				}
				cons := fmt.Sprintf("%s | %s", site, strings.Join(path, "."))
				pv := w.resolveFieldPath(fam, objPath, path, ci, 0)
				if pv.Unset && len(pv.Vals) == 0 && !isRouting && strings.HasPrefix(pv.FinalKey, "alloc@") {
					r.OK("C09-R1", cons, ci.Pos(), "left empty in a request built here (the routing database decides)")
					return
				}
				if pv.Unset && len(pv.Vals) == 0 {
					if isRouting {
						r.Fail("C09-R1", cons, ci.Pos(), "the routing database is never set for this call: the operation is sent to the default database whatever database the object lives in")
					} else {
						r.Fail("C09-R1", cons, ci.Pos(), fmt.Sprintf("field is passed through as found in the source message (%s is never overwritten with a mapping result)", pv.FinalKey))
					}
					return
				}
				good := true
				var offender ssa.Value
				for _, v := range pv.Vals {
					ok, bad := mustDerive(v, classifyMapped(role))
					if !ok {
						good, offender = false, bad
					}
				}
				if pv.Unset {
					good = false
				}
				det := ""
				if !good {
					if offender != nil {
						det = fmt.Sprintf("value comes from %s, not from result %d of mapDBAndCollectionName", w.accessPath(offender), role)
					} else {
						det = "on some path the field keeps its source value"
					}
				}
				r.Check(good, "C09-R1", cons, ci.Pos(), fmt.Sprintf("derives from mapDBAndCollectionName result %d on every path", role), det)
			})
			// privilege entities: report (informational; see known findings)
			if m == "OperatePrivilege" {
				r.Info("C09-R1", site+" | Entity.DbName/ObjectName", ci.Pos(), "privilege entity names are forwarded unmapped (not armed: mapping semantics of grants is a product decision)")
			}
		})
	}
	if nSites < 25 {
		r.Fail("C09-R1", "dataHandler call-site census", 0, fmt.Sprintf("only %d api.DataHandler call sites found in ChannelWriter (25 confirmed by hand)", nSites))
	}

	// ---------- R2 bookkeeping
	waitObj := sym{pkgWriter, "ChannelWriter", "WaitObjReady"}
	waitEvt := sym{pkgWriter, "ChannelWriter", "WaitObjReadyForAPIEvent"}
	// summary of WaitObjReadyForAPIEvent: which paths of its apiEvent parameter reach WaitObjReady name args
	var evtPaths []string
	if wf := w.Func(pkgWriter, "ChannelWriter", "WaitObjReadyForAPIEvent"); wf != nil {
		evName := wf.Params[2].Name()
		for _, c := range callsIn(wf, false, waitObj) {
			for _, a := range callArgs(c.Common())[1:4] {
				for _, v := range backSlice(a, SliceOpts{}) {
					ap := w.accessPath(v)
					if strings.HasPrefix(ap, "param:"+evName+".") {
						if _, isLoad := v.(*ssa.UnOp); isLoad {
							evtPaths = append(evtPaths, strings.TrimPrefix(ap, "param:"+evName+"."))
						}
						if c2, isCall := v.(*ssa.Call); isCall && strings.HasPrefix(callSym(c2.Common()).name, "Get") {
							evtPaths = append(evtPaths, strings.TrimPrefix(ap, "param:"+evName+"."))
						}
					}
				}
			}
		}
		sort.Strings(evtPaths)
		evtPaths = uniq(evtPaths)
	} else {
		r.Undecided("C09-R2", "WaitObjReadyForAPIEvent", 0, "anchor not found")
	}
	keyFuncs := map[sym]bool{{pkgUtil, "", "GetDBInfoKeys"}: true, {pkgUtil, "", "GetCollectionInfoKeys"}: true, {pkgUtil, "", "GetPartitionInfoKeys"}: true}
	for _, fn := range cwFuncs {
		fam := familyOf(fn)
		host := shortFn(rootFunc(fn))
		n := map[string]int{}
		eachInstr(fn, func(in ssa.Instruction) {
			ci, ok := in.(ssa.CallInstruction)
			if !ok {
				return
			}
			s := callSym(ci.Common())
			switch {
			case s == waitObj || keyFuncs[s]:
				args := callArgs(ci.Common())
				if s == waitObj {
					args = args[1:4]
				}
				n[s.name]++
				for i, a := range args {
					cons := fmt.Sprintf("%s | %s#%d arg%d", host, s.name, n[s.name], i)
					if mc, bad := mayDeriveFromCall(a, mapSymW); bad {
						r.Fail("C09-R2", cons, ci.Pos(), fmt.Sprintf("bookkeeping lookup is given a name derived from the mapping call at %s: the source-keyed table is probed under the downstream name", w.pos(mc.Pos())))
					} else if st := readAfterMappedStore(w, fn, a, mapSymW); st != nil {
						r.Fail("C09-R2", cons, ci.Pos(), fmt.Sprintf("bookkeeping lookup reads the name from the message after the message was overwritten with the mapped name at %s: the source-keyed table is probed under the downstream name", w.pos(st.Pos())))
					} else {
						r.OK("C09-R2", cons, ci.Pos(), "not derived from a mapping result")
					}
				}
			case s == waitEvt:
				n[s.name]++
				ev := callArgs(ci.Common())[1]
				evp := w.accessPath(ev)
				for _, p := range evtPaths {
					cons := fmt.Sprintf("%s | %s#%d reads %s", host, s.name, n[s.name], p)
					pv := w.resolveFieldPath(fam, evp, strings.Split(p, "."), ci, 0)
					bad := false
					var where *ssa.Call
					for _, v := range pv.Vals {
						if mc, b := mayDeriveFromCall(v, mapSymW); b {
							bad, where = true, mc
						}
					}
					if bad {
						r.Fail("C09-R2", cons, ci.Pos(), fmt.Sprintf("%s.%s was overwritten with a mapping result (call at %s) before this bookkeeping lookup reads it", evp, p, w.pos(where.Pos())))
					} else {
						r.OK("C09-R2", cons, ci.Pos(), "event field still holds the source name here")
					}
				}
			}
		})
	}

	// ---------- R3 precedence
	for _, spec := range []struct {
		pkg, recv string
	}{{pkgWriter, "ChannelWriter"}, {pkgReader, "TargetClient"}} {
		fn := w.Func(spec.pkg, spec.recv, "mapDBAndCollectionName")
		cons := fmt.Sprintf("(*%s).mapDBAndCollectionName | Range callback", spec.recv)
		if fn == nil || len(fn.AnonFuncs) == 0 {
			r.Undecided("C09-R3", cons, 0, "anchor not found")
			continue
		}
		collParam := fn.Params[2]
		for _, cb := range fn.AnonFuncs {
			fam := familyOf(cb)
			// exact test: BinOp EQL where one side derives from FreeVar(collection) and the other from GetCollectionNameFromFull #1
			var exactTrue []*ssa.BasicBlock
			for _, b := range cb.Blocks {
				cond, t, _, ok := ifSuccs(b)
				if !ok {
					continue
				}
				bo, ok := cond.(*ssa.BinOp)
				if !ok || bo.Op != token.EQL {
					continue
				}
				isColl := func(v ssa.Value) bool {
					for _, x := range backSlice(v, SliceOpts{MaxDepth: 4}) {
						if x == ssa.Value(collParam) {
							return true
						}
						if al, ok := x.(*ssa.Alloc); ok && al.Comment == collParam.Name() {
							return true
						}
						_ = fam
					}
					return false
				}
				isSrcColl := func(v ssa.Value) bool {
					return extractOf(v, sym{pkgUtil, "", "GetCollectionNameFromFull"}, 1)
				}
				if (isColl(bo.X) && isSrcColl(bo.Y)) || (isColl(bo.Y) && isSrcColl(bo.X)) {
					exactTrue = append(exactTrue, t)
				}
			}
			bad := token.NoPos
			nFalse := 0
			eachInstr(cb, func(in ssa.Instruction) {
				ret, ok := in.(*ssa.Return)
				if !ok || len(ret.Results) != 1 {
					return
				}
				c, ok := ret.Results[0].(*ssa.Const)
				if !ok || c.Value == nil || c.Value.ExactString() != "false" {
					return
				}
				nFalse++
				okDom := false
				for _, t := range exactTrue {
					if t == ret.Block() || t.Dominates(ret.Block()) {
						okDom = true
					}
				}
				if !okDom {
					bad = ret.Pos()
				}
			})
			if nFalse == 0 {
				r.OK("C09-R3", cons, cb.Pos(), "the scan never stops early")
			} else {
				r.Check(bad == token.NoPos, "C09-R3", cons, bad, "only the exact-match branch stops the scan", "a non-exact (whole-database / empty-collection) match stops the unordered scan: with both db.* and db.c present the exact entry wins only if visited first")
			}
		}
	}

	// ---------- R9 lookup tables inside the mapping functions are keyed injectively
	r.Rule("C09-R9", "mapping consults injectively keyed tables only", "inside mapDBAndCollectionName (both copies, closures and same-package callees) every map / util.Map / sync.Map key is a parameter, a Range-callback parameter, or a composite whose adjacent string components are separated by a character that cannot occur in a Milvus name", 2)
	for _, spec := range []struct {
		pkg, recv string
	}{{pkgWriter, "ChannelWriter"}, {pkgReader, "TargetClient"}} {
		fn := w.Func(spec.pkg, spec.recv, "mapDBAndCollectionName")
		cons := fmt.Sprintf("(*%s).mapDBAndCollectionName | table keys", spec.recv)
		if fn == nil {
			r.Undecided("C09-R9", cons, 0, "anchor not found")
			continue
		}
		fns := []*ssa.Function{fn}
		seenF := map[*ssa.Function]bool{fn: true}
		for i := 0; i < len(fns) && i < 40; i++ {
			for _, a := range fns[i].AnonFuncs {
				if !seenF[a] {
					seenF[a] = true
					fns = append(fns, a)
				}
			}
			eachInstr(fns[i], func(in ssa.Instruction) {
				if c, ok := in.(ssa.CallInstruction); ok {
					if sc := c.Common().StaticCallee(); sc != nil && sc.Pkg != nil && sc.Pkg.Pkg.Path() == spec.pkg && !seenF[sc] && sc.Blocks != nil {
						seenF[sc] = true
						fns = append(fns, sc)
					}
				}
			})
		}
		nKeys, bad, badPos := 0, "", token.NoPos
		for _, f := range fns {
			ambiguous := map[ssa.Value]compKey{}
			for _, k := range allComposites(f) {
				if len(k.Ambig) > 0 {
					ambiguous[k.Value()] = k
				}
			}
			for _, ku := range mapKeyUses(f) {
				nKeys++
				for _, x := range backSlice(ku.Key, SliceOpts{MaxDepth: 8, ThroughArg: func(c *ssa.CallCommon) []ssa.Value {
					var out []ssa.Value
					for _, a := range callArgs(c) {
						if isStringType(a.Type()) {
							out = append(out, a)
						}
					}
					return out
				}}) {
					if k, isAmb := ambiguous[x]; isAmb {
						bad, badPos = fmt.Sprintf("%s keyed by %s (separator %q between two names)", shortFn2(f), k.Format, k.Seps[k.Ambig[0]]), ku.At.Pos()
					}
					if c, isCall := x.(*ssa.Call); isCall {
						if cs := callSym(c.Common()); cs.pkg == pkgUtil && (cs.name == "GetCollectionInfoKeys" || cs.name == "GetPartitionInfoKeys") {
							bad, badPos = fmt.Sprintf("%s keyed by util.%s (ambiguous, see C15-R5)", shortFn2(f), cs.name), ku.At.Pos()
						}
					}
				}
			}
		}
		// a memo of resolved names must be emptied completely by whoever changes the mapping table
		if bad == "" {
			memo := map[string]bool{}
			for _, f := range fns {
				for _, ku := range mapKeyUses(f) {
					if c, isC := ku.At.(*ssa.Call); isC {
						if rv := callRecv(c.Common()); rv != nil {
							ap := w.accessPath(rv)
							if !strings.HasSuffix(ap, ".nameMappings") {
								memo[ap[strings.LastIndex(ap, ".")+1:]] = true
							}
						}
					}
				}
			}
			for m := range memo {
				cleared := false
				for _, g := range w.RepoFuncs() {
					if g.Pkg.Pkg.Path() != spec.pkg {
						continue
					}
					writesTable := false
					eachInstr(g, func(in ssa.Instruction) {
						if c, isC := in.(*ssa.Call); isC && callSym(c.Common()).name == "Store" {
							if rv := callRecv(c.Common()); rv != nil && strings.HasSuffix(w.accessPath(rv), ".nameMappings") {
								writesTable = true
							}
						}
					})
					if !writesTable {
						continue
					}
					// every entry removed: a Delete of the memo inside a Range over the memo itself
					okClear := false
					for _, lit := range familyOf(g).Funcs {
						eachInstr(lit, func(in ssa.Instruction) {
							if c, isC := in.(*ssa.Call); isC && callSym(c.Common()).name == "Delete" && lit.Parent() != nil {
								if rv := callRecv(c.Common()); rv != nil && strings.HasSuffix(w.accessPath(rv), "."+m) {
									if site, isCall := syncCallbackSite(lit).(*ssa.Call); isCall && callSym(site.Common()).name == "Range" {
										if rr := callRecv(site.Common()); rr != nil && strings.HasSuffix(w.accessPath(rr), "."+m) {
											okClear = true
										}
									}
								}
							}
						})
					}
					if okClear {
						cleared = true
					} else {
						bad, badPos = fmt.Sprintf("%s updates the mapping table but does not empty the memo %s completely", shortFn2(g), m), g.Pos()
					}
				}
				if !cleared && bad == "" {
					bad, badPos = "the memo "+m+" is never emptied when the mapping table changes", fn.Pos()
				}
			}
			if bad != "" {
				r.Fail("C09-R9", cons, badPos, "the mapping result is remembered in a table that outlives a change of the mapping table: "+bad+"; a whole-database entry registered later does not reach names that were resolved before, which keep going to the old target")
				continue
			}
		}
		if bad == "" {
			r.OK("C09-R9", cons, fn.Pos(), fmt.Sprintf("%d function(s) in the mapping family, %d keyed table access(es), none ambiguous", len(fns), nKeys))
		} else {
			r.Fail("C09-R9", cons, badPos, "the mapping result is taken from a table whose key does not identify the (database, collection) pair: "+bad+"; two source objects whose names join to the same string share a slot, so one of them is operated on under the other's downstream names")
		}
	}

	// ---------- R10 the mapping table only grows
	r.Rule("C09-R10", "the mapping table is append-only", "entries of nameMappings are only added (UpdateNameMappings stores the entries it is given); nothing deletes or replaces the entries another task registered on the shared writer", 2)
	for _, spec := range []struct{ pkg, recv string }{{pkgWriter, "ChannelWriter"}, {pkgReader, "TargetClient"}} {
		nStore, bad := 0, token.NoPos
		for _, g := range w.RepoFuncs() {
			if g.Pkg.Pkg.Path() != spec.pkg {
				continue
			}
			eachInstr(g, func(in ssa.Instruction) {
				c, ok := in.(*ssa.Call)
				if !ok {
					return
				}
				rv := callRecv(c.Common())
				if rv == nil || !strings.HasSuffix(w.accessPath(rv), ".nameMappings") {
					return
				}
				switch callSym(c.Common()).name {
				case "Store":
					nStore++
				case "Delete", "LoadAndDelete", "Clear", "CompareAndDelete":
					bad = c.Pos()
				}
			})
		}
		cons := fmt.Sprintf("(*%s).nameMappings | only grows", spec.recv)
		if nStore == 0 {
			r.Undecided("C09-R10", cons, 0, "no Store into nameMappings found")
			continue
		}
		r.Check(bad == token.NoPos, "C09-R10", cons, bad, fmt.Sprintf("%d Store site(s), no removal", nStore), "entries are removed from the mapping table: the writer is shared by all tasks of a target, so a second task's update deletes the first task's mapping and its operations go to the unmapped names")
	}

	// ---------- R5 DML arms
	supported := supportedMsgTypes(w)
	hrm := w.Func(pkgWriter, "ChannelWriter", "HandleReplicateMessage")
	if hrm == nil || len(supported) == 0 {
		r.Undecided("C09-R5", "HandleReplicateMessage", 0, "anchors not found")
	} else {
		fam := familyOf(hrm)
		for _, tn := range supported {
			msgT := tn + "Msg"
			for _, spec := range []struct {
				field string
				idx   int
			}{{"DbName", 0}, {"CollectionName", 1}} {
				cons := fmt.Sprintf("(*ChannelWriter).HandleReplicateMessage | %s.%s", msgT, spec.field)
				found, good := false, true
				det := ""
				for _, in := range fam.allInstr {
					st, ok := in.(*ssa.Store)
					if !ok || st.Parent() != hrm {
						continue
					}
					fa, ok := st.Addr.(*ssa.FieldAddr)
					if !ok || fieldName(fa.X.Type(), fa.Field) != spec.field {
						continue
					}
					// the object must be the type-asserted message of type *msgstream.<T>Msg
					isT := false
					for _, v := range backSlice(fa.X, SliceOpts{MaxDepth: 5}) {
						if ta, ok := v.(*ssa.TypeAssert); ok && typeIs(ta.AssertedType, pkgMsgstream, msgT) {
							isT = true
						}
					}
					if !isT {
						continue
					}
					found = true
					ok2, badv := mustDerive(st.Val, classifyMapped(spec.idx))
					if !ok2 {
						good = false
						det = fmt.Sprintf("stored value comes from %s", w.accessPath(badv))
					} else {
						// mapping args come from the same message
						mc, _ := mayDeriveFromCall(st.Val, mapSymW)
						if mc != nil {
							for ai, a := range callArgs(mc.Common()) {
								same := false
								for _, v := range backSlice(a, SliceOpts{MaxDepth: 8, ThroughArg: getterRecv}) {
									if ta, ok := v.(*ssa.TypeAssert); ok && typeIs(ta.AssertedType, pkgMsgstream, msgT) {
										same = true
									}
								}
								if !same {
									good = false
									det = fmt.Sprintf("mapping argument %d is not read from the same %s", ai, msgT)
								}
							}
						}
					}
				}
				if !found {
					r.Fail("C09-R5", cons, hrm.Pos(), "no store of a mapped name into this field: messages of this type keep the source name downstream")
				} else {
					r.Check(good, "C09-R5", cons, hrm.Pos(), "mapped from the message's own names", det)
				}
			}
		}
	}

	// ---------- R6 reader side
	for _, name := range []string{"GetCollectionInfo", "GetPartitionInfo"} {
		fn := w.Func(pkgReader, "TargetClient", name)
		if fn == nil {
			r.Undecided("C09-R6", name, 0, "anchor not found")
			continue
		}
		ops := callsIn(fn, false, sym{pkgReader, "TargetClient", "milvusOp"})
		cons := fmt.Sprintf("(*TargetClient).%s | milvusOp database", name)
		if len(ops) == 0 {
			r.Fail("C09-R6", cons, fn.Pos(), "no milvusOp call")
			continue
		}
		for _, op := range ops {
			ok, bad := mustDerive(callArgs(op.Common())[1], func(v ssa.Value) leafVerdict {
				if extractOf(v, mapSymT, 0) {
					return leafGood
				}
				return leafDescend
			})
			det := ""
			if !ok {
				det = "database given to milvusOp comes from " + w.accessPath(bad)
			}
			r.Check(ok, "C09-R6", cons, op.Pos(), "mapped database", det)
		}
		// the collection name used inside the closure
		cons2 := fmt.Sprintf("(*TargetClient).%s | collection name in lookup", name)
		found := false
		eachInstrDeep(fn, func(g *ssa.Function, in ssa.Instruction) {
			ci, ok := in.(ssa.CallInstruction)
			if !ok || !ci.Common().IsInvoke() {
				return
			}
			mn := ci.Common().Method.Name()
			if mn != "DescribeCollection" && mn != "ShowPartitions" {
				return
			}
			found = true
			ok2, bad := mustDerive(ci.Common().Args[1], func(v ssa.Value) leafVerdict {
				if extractOf(v, mapSymT, 1) {
					return leafGood
				}
				return leafDescend
			})
			det := ""
			if !ok2 {
				det = "collection name comes from " + w.accessPath(bad)
			}
			r.Check(ok2, "C09-R6", cons2, ci.Pos(), "mapped collection name", det)
		})
		if !found {
			r.Fail("C09-R6", cons2, fn.Pos(), "no DescribeCollection/ShowPartitions call found")
		}
	}

	// ---------- R7 mapping argument roles
	roleOf := func(v ssa.Value) string {
		if c, ok := v.(*ssa.Const); ok {
			if s, ok := constString(c); ok && s == "" {
				return "empty"
			}
			return "const"
		}
		roles := map[string]bool{}
		for _, x := range backSlice(v, SliceOpts{MaxDepth: 8}) {
			ap := ""
			switch y := x.(type) {
			case *ssa.UnOp:
				if y.Op == token.MUL {
					ap = w.accessPath(y)
				}
			case *ssa.Call:
				ap = w.accessPath(y)
			case *ssa.Parameter:
				ap = "." + y.Name()
			case *ssa.Next, *ssa.Index, *ssa.IndexAddr:
				ap = w.accessPath(x.(ssa.Value))
			}
			last := ap
			if i := strings.LastIndex(ap, "."); i >= 0 {
				last = ap[i+1:]
			}
			last = strings.ToLower(strings.TrimSuffix(last, "[]"))
			if i := strings.Index(last, "@"); i >= 0 {
				last = last[:i]
			}
			last = strings.TrimPrefix(last, "call:")
			switch {
			case strings.Contains(last, "database") || strings.Contains(last, "dbname") || last == "db":
				roles["db"] = true
			case strings.Contains(last, "collection") || last == "name":
				roles["collection"] = true
			}
		}
		var ks []string
		for k := range roles {
			ks = append(ks, k)
		}
		sort.Strings(ks)
		return strings.Join(ks, "+")
	}
	for _, fn := range append(cwFuncs, tcFuncs(w)...) {
		host := shortFn(rootFunc(fn))
		k := 0
		eachInstr(fn, func(in ssa.Instruction) {
			ci, ok := in.(ssa.CallInstruction)
			if !ok {
				return
			}
			s := callSym(ci.Common())
			if s != mapSymW && s != mapSymT {
				return
			}
			k++
			a := callArgs(ci.Common())
			r0, r1 := roleOf(a[0]), roleOf(a[1])
			cons := fmt.Sprintf("%s | mapDBAndCollectionName#%d", host, k)
			ok0 := r0 == "db"
			ok1 := r1 == "collection" || r1 == "empty"
			if r1 == "empty" {
				// a function that was handed the collection's name must map with it: a collection-level entry decides
				// the target database as well (WaitDatabaseReady(ctx, database, collection, …))
				for _, prm := range rootFunc(fn).Params {
					if b, isB := prm.Type().Underlying().(*types.Basic); isB && b.Kind() == types.String && identRole(prm.Name()) == "collection" {
						r.Fail("C09-R7", cons+" | collection at hand", ci.Pos(), "the enclosing function has the collection name ("+prm.Name()+") but maps the database with an empty collection: a collection-level mapping entry is ignored (or an arbitrary entry of the database is taken), so the database probed / routed to is not the mapped one")
						return
					}
				}
			}
			r.Check(ok0 && ok1, "C09-R7", cons, ci.Pos(), fmt.Sprintf("args carry (%s, %s)", r0, r1), fmt.Sprintf("argument roles are (%s, %s), expected (db, collection|empty)", r0, r1))
		})
	}
}

func tcFuncs(w *World) []*ssa.Function {
	var out []*ssa.Function
	for _, fn := range w.RepoFuncs() {
		if s := fnSym(rootFunc(fn)); s.pkg == pkgReader && s.recv == "TargetClient" {
			out = append(out, fn)
		}
	}
	return out
}

func uniq(s []string) []string {
	var out []string
	for i, x := range s {
		if i == 0 || x != s[i-1] {
			out = append(out, x)
		}
	}
	return out
}

func shortFn(fn *ssa.Function) string {
	s := fnSym(fn)
	if s.name == "" {
		return fn.String()
	}
	if s.recv != "" {
		return fmt.Sprintf("(*%s).%s", s.recv, s.name)
	}
	return s.name
}

func fieldIsEmbedded(t types.Type, name string) bool {
	for {
		if p, ok := t.Underlying().(*types.Pointer); ok {
			t = p.Elem()
			continue
		}
		break
	}
	st, ok := t.Underlying().(*types.Struct)
	if !ok {
		return false
	}
	for i := 0; i < st.NumFields(); i++ {
		if st.Field(i).Name() == name {
			return st.Field(i).Embedded()
		}
	}
	return false
}

// supportedMsgTypes returns the MsgType names (Insert, Delete, ...) admitted by reader.isSupportedMsgType.
func supportedMsgTypes(w *World) []string {
	fn := w.Func(pkgReader, "", "isSupportedMsgType")
	if fn == nil {
		return nil
	}
	enum := msgTypeNames(w)
	set := map[string]bool{}
	eachInstr(fn, func(in ssa.Instruction) {
		bo, ok := in.(*ssa.BinOp)
		if !ok || bo.Op != token.EQL {
			return
		}
		for _, o := range []ssa.Value{bo.X, bo.Y} {
			if c, ok := o.(*ssa.Const); ok && c.Value != nil {
				if n, ok := enum[c.Value.ExactString()]; ok {
					set[n] = true
				}
			}
		}
	})
	var out []string
	for k := range set {
		out = append(out, k)
	}
	sort.Strings(out)
	return out
}

// msgTypeNames maps the numeric value of commonpb.MsgType constants to their short name.
func msgTypeNames(w *World) map[string]string {
	out := map[string]string{}
	p := w.ByPath[pkgCommonpb]
	if p == nil || p.Types == nil {
		return out
	}
	mt, _ := p.Types.Scope().Lookup("MsgType").(*types.TypeName)
	if mt == nil {
		return out
	}
	for _, n := range p.Types.Scope().Names() {
		if c, ok := p.Types.Scope().Lookup(n).(*types.Const); ok && types.Identical(c.Type(), mt.Type()) && strings.HasPrefix(n, "MsgType_") {
			out[c.Val().ExactString()] = strings.TrimPrefix(n, "MsgType_")
		}
	}
	return out
}

// readAfterMappedStore: the value is read from a name field of a message (getter GetDbName/GetCollectionName or a
// direct field load) at a point dominated by a store of a mapping result into that very field.
func readAfterMappedStore(w *World, fn *ssa.Function, v ssa.Value, mapSym sym) *ssa.Store {
	var found *ssa.Store
	for _, x := range backSlice(v, SliceOpts{MaxDepth: 5, NoAggregates: true}) {
		var base ssa.Value
		field := ""
		var at ssa.Instruction
		switch y := x.(type) {
		case *ssa.Call:
			n := callSym(y.Common()).name
			if (n == "GetDbName" || n == "GetCollectionName") && len(callArgs(y.Common())) == 0 {
				base, field, at = callRecv(y.Common()), strings.TrimPrefix(n, "Get"), y
				if y.Call.IsInvoke() {
					base = y.Call.Value
				}
			}
		case *ssa.UnOp:
			if fa, ok := y.X.(*ssa.FieldAddr); ok && y.Op == token.MUL {
				if fnm := fieldName(fa.X.Type(), fa.Field); fnm == "DbName" || fnm == "CollectionName" {
					base, field, at = fa.X, fnm, y
				}
			}
		}
		if base == nil {
			continue
		}
		bp := w.accessPath(base)
		eachInstr(fn, func(in ssa.Instruction) {
			st, ok := in.(*ssa.Store)
			if !ok {
				return
			}
			fa, ok := st.Addr.(*ssa.FieldAddr)
			if !ok || fieldName(fa.X.Type(), fa.Field) != field || w.accessPath(fa.X) != bp {
				return
			}
			if _, derived := mayDeriveFromCall(st.Val, mapSym); derived && instrDominates(st, at) {
				found = st
			}
		})
	}
	return found
}
