#!/bin/bash
# Builds the checker offline from files on disk only.
set -eu
cd "$(dirname "$0")"
export GOFLAGS=-mod=mod GOPROXY=off GOSUMDB=off GOTOOLCHAIN=local GOWORK=off
mkdir -p bin evidence
(cd checker && go build -o ../bin/vcheck .)
echo "built bin/vcheck"
