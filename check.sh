#!/bin/bash
# usage: ./check.sh <property-id> [quick|thorough]
# Analyses /repo's current working tree (nothing is executed from /repo).
set -u
cd "$(dirname "$0")"
export GOFLAGS=-mod=mod GOPROXY=off GOSUMDB=off GOTOOLCHAIN=local GOWORK=off
PROP="$1"; TIER="${2:-${VERIF_TIER:-quick}}"
if [ ! -x bin/vcheck ] || [ -n "$(find checker -newer bin/vcheck -name '*.go' -print -quit 2>/dev/null)" ]; then
  ./setup.sh >/dev/null 2>&1 || { echo "cannot build checker"; ./setup.sh; exit 2; }
fi
exec bin/vcheck -verif "$(pwd)" -prop "$PROP" -tier "$TIER"
